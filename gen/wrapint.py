"""Case generator and property-level oracle for the wrapint family (property C13).

Stage 1, crab::wrapint     :  wi <op> <width> <args...>   operands are uint64 decimals
Stage 2, wrapped_interval  :  wv <op> <width> <args...>   intervals are  bot | top | s:e

The oracle is independent python code: integers modulo 2^w for stage 1 (the property pins
the answer, so any difference is a failing input), enumeration / sampling of the members of
the argument intervals for stage 2 (membership of op(x, y) in the implementation's answer)."""
import random, re

M64 = 2 ** 64
I64MIN, I64MAX = -(2 ** 63), 2 ** 63 - 1

WI_BIN_ARITH = ["add", "sub", "mul", "and", "or", "xor", "addeq", "subeq", "muleq"]
WI_BIN_DIV = ["sdiv", "udiv", "srem", "urem", "div", "rem"]
WI_BIN_CMP = ["eq", "ne", "lt", "le", "gt", "ge"]
WI_BIN_SHIFT = ["shl", "lshr", "ashr"]
WI_UN = ["u64", "bw", "getu", "gets", "ustr", "sstr", "write", "msb", "iszero", "neg", "preinc",
         "predec", "postinc", "postdec", "rtu", "rts"]
WI_STATIC = ["smax", "smin", "umax", "umin"]


def signed(a, w):
    return a - 2 ** w if a >= 2 ** (w - 1) else a


def tdiv(x, y):
    q = abs(x) // abs(y)
    return q if (x >= 0) == (y >= 0) else -q


def trem(x, y):
    return x - y * tdiv(x, y)


def boundary(w):
    m = 2 ** w
    vals = {0, 1, 2 ** (w - 1) - 1, 2 ** (w - 1), m - 1, m - 2, 2 % m, 3 % m, (2 ** (w - 1) + 1) % m,
            (m // 3) % m}
    return sorted(v % m for v in vals)


def shift_amounts(w):
    m = 2 ** w
    c = {0, 1, 2, w - 1, w, w + 1, w // 2, 31, 32, 33, 62, 63}
    return sorted(k for k in c if 0 <= k < 64 and k < m)


def rand_operand(rng, w):
    m = 2 ** w
    k = rng.random()
    if k < 0.3:
        return rng.choice(boundary(w))
    if k < 0.5:
        return (rng.choice([0, 2 ** (w - 1), m]) + rng.randint(-4, 4)) % m
    if k < 0.7:
        return rng.randrange(0, min(m, 256))
    return rng.randrange(0, m)


def wi_pair_lines(w, a, b, ops):
    return ["wi %s %d %d %d" % (op, w, a, b) for op in ops]


def gen_wi(seed, tier):
    """returns (main lines, lines expected to abort or to hit a checked error path)"""
    rng = random.Random(seed)
    main, err = [], []
    # corpus: past failures first
    corpus = ["wi ashr 8 128 1", "wi ashr 64 9223372036854775808 0", "wi ashr 8 128 8", "wi ashr 8 128 9",
              "wi ashr 8 200 63", "wi ashr 64 18446744073709551615 63", "wi ashr 3 5 2",
              "wi keep 64 18446744073709551615 63", "wi keep 64 9223372036854775809 63",
              "wi keep 8 255 3", "wi sdiv 64 9223372036854775808 18446744073709551615",
              "wi div 64 9223372036854775808 18446744073709551615",
              "wi sdiv 8 128 255", "wi srem 64 9223372036854775808 18446744073709551615",
              "wi rts 64 9223372036854775808", "wi mkz 8 -1", "wi mkq 8 7 2", "wi mkq 8 -7 2",
              "wi sext 8 128 56", "wi sext 1 1 63", "wi shl 8 3 63", "wi lshr 8 255 8"]
    main += corpus
    err += ["wi keep 8 255 0", "wi rtu 64 9223372036854775808", "wi mkz 64 9223372036854775808",
            "wi mkz 8 -9223372036854775809", "wi udiv 8 5 0", "wi sdiv 8 5 0", "wi urem 64 5 0",
            "wi srem 1 1 0", "wi mku64 65 1", "wi mku64 0 1", "wi zext 8 128 57", "wi sext 64 1 1",
            "wi mkq 64 18446744073709551617 2", "wi div 16 7 0", "wi rem 16 7 0"]
    all_bin = WI_BIN_ARITH + WI_BIN_DIV + WI_BIN_CMP
    # exhaustive for small widths
    for w in (1, 2, 3, 4):
        m = 2 ** w
        for a in range(m):
            for b in range(m):
                ops = all_bin + WI_BIN_SHIFT
                for op in ops:
                    l = "wi %s %d %d %d" % (op, w, a, b)
                    if op in WI_BIN_DIV and b == 0:
                        if a in (0, 1, m - 1) and w in (1, 3):
                            err.append(l)
                    else:
                        main.append(l)
            for op in WI_UN:
                l = "wi %s %d %d" % (op, w, a)
                main.append(l)
            for k in range(0, 6):
                main.append("wi keep %d %d %d" % (w, a, k) if k > 0 else "wi zext %d %d 0" % (w, a))
                main.append("wi sext %d %d %d" % (w, a, k))
                main.append("wi zext %d %d %d" % (w, a, k))
            for k in (60 - w, 64 - w):
                main.append("wi sext %d %d %d" % (w, a, k))
                main.append("wi zext %d %d %d" % (w, a, k))
    # boundary stream: all widths x boundary operands x all operations
    for w in range(1, 65):
        m = 2 ** w
        bs = boundary(w)
        for op in WI_STATIC:
            main.append("wi %s %d" % (op, w))
        for a in bs:
            for op in WI_UN:
                if op == "rtu" and a > I64MAX:
                    if a in (2 ** 63, M64 - 1):
                        err.append("wi rtu %d %d" % (w, a))
                    continue
                main.append("wi %s %d %d" % (op, w, a))
            for n in (a, a + m if a + m < M64 else a, (a + 5 * m) % M64, M64 - 1 - a):
                main.append("wi mku64 %d %d" % (w, n))
            main.append("wi mkstr %d %d" % (w, (a + m) % M64))
            for z in (a, -a, signed(a, w), a - m, a + m, a - 3 * m):
                if I64MIN <= z <= I64MAX:
                    main.append("wi mkz %d %d" % (w, z))
                    main.append("wi fitsz %d %d" % (w, z))
            for k in sorted({0, 1, 64 - w, 63 - w, (64 - w) // 2}):
                if 0 <= k <= 64 - w:
                    main.append("wi sext %d %d %d" % (w, a, k))
                    main.append("wi zext %d %d %d" % (w, a, k))
            for k in sorted({1, w - 1, w, w + 1, w // 2, 63, 64}):
                if k >= 1:
                    main.append("wi keep %d %d %d" % (w, a, k))
            for k in shift_amounts(w):
                for op in WI_BIN_SHIFT:
                    main.append("wi %s %d %d %d" % (op, w, a, k))
        pairs = [(a, b) for a in bs for b in bs]
        if tier == "quick" and w not in (1, 2, 7, 8, 16, 31, 32, 33, 63, 64):
            rng.shuffle(pairs)
            pairs = pairs[:24]
        for (a, b) in pairs:
            for op in all_bin:
                if op in WI_BIN_DIV and b == 0:
                    continue
                main.append("wi %s %d %d %d" % (op, w, a, b))
    for w in (8, 64):
        for a in (0, 1, 2 ** (w - 1), 2 ** w - 1):
            for op in WI_BIN_DIV:
                err.append("wi %s %d %d 0" % (op, w, a))
    for z in (2 ** 63, -(2 ** 63) - 1, 2 ** 64, 2 ** 64 - 1, 2 ** 100, -(2 ** 100)):
        for w in (1, 8, 64):
            err.append("wi mkz %d %d" % (w, z))
            main.append("wi fitsz %d %d" % (w, z))
    for w in (65, 100):
        main.append("wi fitsz %d 5" % w)
    for (w, k) in ((64, 1), (8, 57), (33, 32), (1, 64), (63, 2)):
        err.append("wi sext %d %d %d" % (w, 1, k))
        err.append("wi zext %d %d %d" % (w, 1, k))
    # structured random
    nrand = 12000 if tier == "quick" else 400000
    for _ in range(nrand):
        w = rng.choice([rng.randint(1, 64), rng.randint(1, 64), rng.choice([1, 2, 7, 8, 16, 32, 63, 64])])
        m = 2 ** w
        a, b = rand_operand(rng, w), rand_operand(rng, w)
        k = rng.random()
        if k < 0.45:
            op = rng.choice(all_bin)
            if op in WI_BIN_DIV and b == 0:
                b = 1 + rng.randrange(0, m - 1) if m > 1 else 1
                b %= m
                if b == 0:
                    b = 1
            main.append("wi %s %d %d %d" % (op, w, a, b))
        elif k < 0.65:
            sh = rng.choice(shift_amounts(w) + [rng.randrange(0, 64)] * 3)
            if sh >= m:
                sh = sh % m
            main.append("wi %s %d %d %d" % (rng.choice(WI_BIN_SHIFT), w, a, sh))
        elif k < 0.75:
            op = rng.choice(WI_UN)
            if op == "rtu" and a > I64MAX:
                op = "rts"
            main.append("wi %s %d %d" % (op, w, a))
        elif k < 0.85:
            op = rng.choice(["sext", "zext", "keep"])
            if op == "keep":
                main.append("wi keep %d %d %d" % (w, a, rng.randint(1, 64)))
            else:
                main.append("wi %s %d %d %d" % (op, w, a, rng.randint(0, 64 - w)))
        elif k < 0.92:
            z = rng.choice([rng.randint(I64MIN, I64MAX), rng.randint(-300, 300), signed(a, w), a])
            if not (I64MIN <= z <= I64MAX):
                z = signed(a, w)
            main.append("wi %s %d %d" % (rng.choice(["mkz", "fitsz"]), w, z))
        elif k < 0.96:
            num = rng.choice([rng.randint(-2 ** 62, 2 ** 62), rng.randint(-50, 50)])
            den = rng.choice([1, 2, 3, 7, rng.randint(1, 1000)])
            main.append("wi %s %d %d %d" % (rng.choice(["mkq", "mkq", "fitsq"]), w, num, den))
        else:
            n = rng.choice([rng.randrange(0, M64), a])
            main.append("wi %s %d %d" % (rng.choice(["mku64", "mkstr"]), w, n))
    return main, err


# ------------------------------------------------------------------ stage-1 oracle

def wi_expected(t):
    """the answer arithmetic modulo 2^w pins down; 'ABORT' where the class documents a
    checked error (division by zero, width outside 1..64, big integer outside int64)"""
    op = t[1]
    w = int(t[2])
    args = [int(x) for x in t[3:]]

    def W(n, ww=None):
        ww = w if ww is None else ww
        return "%d %d" % (n % (2 ** ww), ww)
    if op == "fitsz":
        return "true" if (w <= 64 and I64MIN <= args[0] <= I64MAX) else "false"
    if op == "fitsq":
        c = -((-args[0]) // args[1])
        return "true" if (w <= 64 and I64MIN <= c <= I64MAX) else "false"
    if w < 1 or w > 64:
        return "ABORT"
    m = 2 ** w
    if op == "mku64" or op == "mkstr":
        return W(args[0])
    if op == "mkz":
        return W(args[0]) if I64MIN <= args[0] <= I64MAX else "ABORT"
    if op == "mkq":
        c = -((-args[0]) // args[1])
        return W(c) if I64MIN <= c <= I64MAX else "ABORT"
    if op == "smax": return W(2 ** (w - 1) - 1)
    if op == "smin": return W(2 ** (w - 1))
    if op == "umax": return W(m - 1)
    if op == "umin": return W(0)
    a = args[0] % m
    if len(args) == 1:
        if op == "u64": return str(a)
        if op == "bw": return str(w)
        if op in ("getu", "ustr", "write"): return str(a)
        if op in ("gets", "sstr"): return str(signed(a, w))
        if op == "msb": return "true" if a >= 2 ** (w - 1) else "false"
        if op == "iszero": return "true" if a == 0 else "false"
        if op == "neg": return W(-a)
        if op == "preinc": return W(a + 1) + " " + W(a + 1)
        if op == "predec": return W(a - 1) + " " + W(a - 1)
        if op == "postinc": return W(a) + " " + W(a + 1)
        if op == "postdec": return W(a) + " " + W(a - 1)
        if op == "rtu": return W(a) if a <= I64MAX else "ABORT"
        if op == "rts": return W(a)
        return None
    k = args[1]
    if op == "sext":
        return W(signed(a, w), w + k) if w + k <= 64 else "ABORT"
    if op == "zext":
        return W(a, w + k) if w + k <= 64 else "ABORT"
    if op == "keep":
        if k >= w: return W(a)
        if k == 0: return "ABORT"
        return W(a, k)
    b = k % m
    sa, sb_ = signed(a, w), signed(b, w)
    if op == "add": return W(a + b)
    if op == "sub": return W(a - b)
    if op == "mul": return W(a * b)
    if op == "addeq": return W(a + b) + " " + W(a + b)
    if op == "subeq": return W(a - b) + " " + W(a - b)
    if op == "muleq": return W(a * b) + " " + W(a * b)
    if op in ("sdiv", "div"): return W(tdiv(sa, sb_)) if b != 0 else "ABORT"
    if op in ("srem", "rem"): return W(trem(sa, sb_)) if b != 0 else "ABORT"
    if op == "udiv": return W(a // b) if b != 0 else "ABORT"
    if op == "urem": return W(a % b) if b != 0 else "ABORT"
    if op == "and": return W(a & b)
    if op == "or": return W(a | b)
    if op == "xor": return W(a ^ b)
    if op == "eq": return "true" if a == b else "false"
    if op == "ne": return "true" if a != b else "false"
    if op == "lt": return "true" if a < b else "false"
    if op == "le": return "true" if a <= b else "false"
    if op == "gt": return "true" if a > b else "false"
    if op == "ge": return "true" if a >= b else "false"
    if b >= 64:
        return None          # shift by >= 64: undefined behaviour in the C++, out of scope
    if op == "shl": return W(a << b)
    if op == "lshr": return W(a >> b)
    if op == "ashr": return W(sa >> b)
    return None


def oracle_wi(line, ans):
    t = line.split()
    exp = wi_expected(t)
    if exp is None or exp == ans:
        return None
    w = t[2]
    return ("crab::wrapint, width %s: %s answered %r but arithmetic modulo 2^%s gives %r"
            % (w, " ".join(t[1:]), ans, w, exp))


def oracle(line, ans, rng=None):
    if line.startswith("wi "):
        return oracle_wi(line, ans)
    return None


def nontrivial(line, ans):
    """stage 1: the case did not abort and an operand or the answer is different from 0"""
    t = line.split()
    if ans in ("ABORT", "MISSING"):
        return False
    if t[0] == "wi":
        return any(x not in ("0",) for x in t[3:]) or ans.split()[0] not in ("0", "false")
    return True


def key(line):
    return " ".join(line.split()[:2])


# ====================================================================== stage 2
# wrapped intervals:  wv <op> <width> <A> [<B> | <k> | <n>]     A, B ::= bot | top | s:e

WV_BIN = ["leq", "eq", "join", "meet", "widen", "narrow", "add", "sub", "mul", "sdiv", "udiv",
          "srem", "urem", "shl", "lshr", "ashr", "and", "or", "xor", "trim"]
WV_BIN_CORE = ["leq", "join", "meet", "widen", "add", "sub", "mul", "sdiv", "udiv", "shl", "lshr",
               "ashr", "trim", "eq"]
WV_BIN_ALIAS = ["ne", "div", "addeq", "subeq", "muleq", "diveq"]
WV_UN = ["isbot", "istop", "issingleton", "neg", "toitv", "lowers", "loweru", "uppers", "upperu",
         "write"]


def wv_fmt(i):
    return i if isinstance(i, str) else "%d:%d" % i


def wv_all(w):
    m = 2 ** w
    return ["bot", "top"] + [(s, e) for s in range(m) for e in range(m)]


def wv_is_top(i, w):
    return i == "top" or (i != "bot" and (i[1] - i[0]) % (2 ** w) == 2 ** w - 1)


def wv_rand(rng, w):
    """random wrapped interval aimed at the poles"""
    m = 2 ** w
    k = rng.random()
    if k < 0.03:
        return "bot"
    if k < 0.06:
        return "top"
    anchor = rng.choice([0, m - 1, 2 ** (w - 1), 2 ** (w - 1) - 1, rng.randrange(m), rng.randrange(m),
                         rng.randrange(min(m, 64))])
    s = (anchor + rng.randint(-6, 6)) % m
    k = rng.random()
    if k < 0.25:
        ln = 0
    elif k < 0.6:
        ln = rng.randint(1, 12)
    elif k < 0.7:
        ln = m - 1 - rng.randint(0, 6)
    elif k < 0.8:
        ln = 2 ** (w - 1) + rng.randint(-3, 3)
    else:
        ln = rng.randrange(m)
    ln %= m
    return (s, (s + ln) % m)


def wv_related(rng, w, a):
    """an interval placed relative to the bounds of a: overlapping one end, both ends
    (covering the complement), inside, around"""
    m = 2 ** w
    if a in ("bot", "top"):
        return wv_rand(rng, w)
    s, e = a
    d1, d2 = rng.randint(0, 5), rng.randint(0, 5)
    k = rng.randrange(6)
    if k == 0: return ((e - d1) % m, (s + d2) % m)        # both ends, the long way round
    if k == 1: return ((e + d1) % m, (s - d2) % m)        # the complement (or nearly)
    if k == 2: return ((s + d1) % m, (e + d2) % m)        # overlaps the end
    if k == 3: return ((s - d1) % m, (e - d2) % m)        # overlaps the start
    if k == 4: return ((s - d1) % m, (e + d2) % m)        # around
    return ((e + 1 + d1) % m, (e + 1 + d1 + d2) % m)      # just after


def wv_shift_amount(rng, w):
    m = 2 ** w
    k = rng.choice([0, 1, 2, w - 1, w, w + 1, w // 2, rng.randrange(0, 64)])
    k = min(k, 63) % m
    return (k, k)


def gen_wv(seed, tier):
    rng = random.Random(seed + 1)
    main, err = [], []
    corpus = ["wv shl 64 5:9 0:0", "wv trunc 64 5:9 64", "wv shl 8 100:200 0:0", "wv trunc 8 100:200 8",   # wrapint-10
              "wv udiv 8 200:100 1:10", "wv udiv 8 200:100 1:1", "wv udiv 8 250:5 1:3", "wv shl 8 3:5 7:7",
              "wv shl 8 3:3 8:8", "wv shl 3 1:1 3:3", "wv shl 8 3:5 9:9", "wv ashr 8 128:130 1:1",
              "wv trunc 8 15:16 4", "wv trunc 64 0:18446744073709551615 63", "wv trunc 64 5:9 63",
              "wv sext 8 100:200 8", "wv zext 8 200:100 8", "wv mul 8 100:120 2:3", "wv mul 8 250:5 250:5",
              "wv mul 8 0:2 128:255", "wv mul 3 0:2 1:7", "wv mul 32 0:2 1:4294967295",
              "wv sdiv 8 128:128 255:255", "wv sdiv 8 120:130 250:5", "wv widen 8 0:1 0:2",
              "wv widen 64 0:1 0:2", "wv widen 34 0:1 0:2", "wv widen 35 0:100000 0:200000", "wv widen 8 3:5 5:3",
              "wv widen 8 10:20 15:12", "wv widen 16 100:200 150:120",
              "wv toitv 8 200:100", "wv toitv 8 100:200", "wv join 8 250:5 100:130", "wv meet 8 250:130 120:5",
              "wv mkzz 8 0 300", "wv mkzz 8 0 256", "wv mkzz 8 0 255", "wv mkzz 8 -1 300", "wv mkzz 8 -128 127",
              "wv mkzz 8 -3 5", "wv mkzz 64 -9223372036854775808 9223372036854775807", "wv mkzz 3 10 16"]
    main += corpus
    err += ["wv zext 8 top 8", "wv sext 8 top 8", "wv trunc 8 3:3 0", "wv widen 1 0:0 1:1",
            "wv zext 60 1:2 5", "wv sext 64 1:2 1", "wv mkz 0 5", "wv slimit 65", "wv ulimit 0"]
    # ---- exhaustive for small widths
    for w in (1, 2, 3):
        m = 2 ** w
        allv = wv_all(w)
        for a in allv:
            for op in WV_UN + ["crosss", "crossu"]:
                if op in ("crosss", "crossu") and (a == "bot" or wv_is_top(a, w)):
                    continue
                main.append("wv %s %d %s" % (op, w, wv_fmt(a)))
            for n in range(m):
                main.append("wv at %d %s %d" % (w, wv_fmt(a), n))
            for k in (0, 1, 2, 5, 61, 64 - w):
                if w + k <= 64 and not wv_is_top(a, w):
                    main.append("wv zext %d %s %d" % (w, wv_fmt(a), k))
                    main.append("wv sext %d %s %d" % (w, wv_fmt(a), k))
            for k in range(1, w + 1):
                main.append("wv trunc %d %s %d" % (w, wv_fmt(a), k))
        pairs = [(a, b) for a in allv for b in allv]
        for (a, b) in pairs:
            if w < 3 or tier != "quick":
                ops = WV_BIN + (WV_BIN_ALIAS if w == 2 else [])
            else:
                ops = WV_BIN_CORE + ([rng.choice(["srem", "urem", "and", "or", "xor", "narrow"] + WV_BIN_ALIAS)]
                                     if rng.random() < 0.15 else [])
            for op in ops:
                l = "wv %s %d %s %s" % (op, w, wv_fmt(a), wv_fmt(b))
                if w == 1 and op == "widen" and a in ((0, 0), (1, 1)) and b in ((0, 0), (1, 1)) and a != b:
                    err.append(l)     # assert(w > 1) in operator||
                    continue
                main.append(l)
    if tier != "quick":
        # width 4, all pairs, the operators with the most case splits
        allv = wv_all(4)
        for a in allv:
            for b in allv:
                for op in ("mul", "sdiv", "udiv", "join", "meet", "widen"):
                    main.append("wv %s 4 %s %s" % (op, wv_fmt(a), wv_fmt(b)))
    # ---- larger widths: pole-crossing and random
    widths = [4, 5, 6, 7, 8, 16, 31, 32, 33, 34, 35, 63, 64]
    nrand = 16000 if tier == "quick" else 300000
    for _ in range(nrand):
        w = rng.choice(widths + [rng.randint(4, 64)] * 4)
        m = 2 ** w
        a, b = wv_rand(rng, w), wv_rand(rng, w)
        if rng.random() < 0.35:
            b = wv_related(rng, w, a)
        k = rng.random()
        if k < 0.62:
            op = rng.choice(WV_BIN_CORE + ["mul", "mul", "sdiv", "udiv", "join", "meet", "add", "sub", "widen"]
                            + WV_BIN_ALIAS[:2])
            if op in ("shl", "lshr", "ashr") and rng.random() < 0.85:
                b = wv_shift_amount(rng, w)
            if op in ("shl", "lshr", "ashr") and b not in ("bot", "top") and b[0] == b[1] and b[0] >= 64:
                b = (b[0] % 64, b[0] % 64)
            if op == "trim" and rng.random() < 0.8:
                c = rng.choice([a[0], a[1], rng.randrange(m)]) if a not in ("bot", "top") else rng.randrange(m)
                b = (c, c)
            main.append("wv %s %d %s %s" % (op, w, wv_fmt(a), wv_fmt(b)))
        elif k < 0.68:
            main.append("wv %s %d %s %s" % (rng.choice(["srem", "urem", "and", "or", "xor", "narrow", "ne"]),
                                            w, wv_fmt(a), wv_fmt(b)))
        elif k < 0.78:
            op = rng.choice(WV_UN + ["crosss", "crossu"])
            if op in ("crosss", "crossu") and (a == "bot" or wv_is_top(a, w)):
                op = "neg"
            main.append("wv %s %d %s" % (op, w, wv_fmt(a)))
        elif k < 0.86:
            if a in ("bot", "top"):
                n = rng.randrange(m)
            else:
                n = (rng.choice([a[0], a[1], 0, m - 1, 2 ** (w - 1)]) + rng.randint(-2, 2)) % m
            main.append("wv at %d %s %d" % (w, wv_fmt(a), n))
        elif k < 0.93:
            op = rng.choice(["zext", "sext"])
            if wv_is_top(a, w):
                a = (0, 1) if w > 1 else (0, 0)
            main.append("wv %s %d %s %d" % (op, w, wv_fmt(a), min(64 - w, rng.choice([0, 1, 64 - w, rng.randint(0, 64 - w)]))))
        elif k < 0.98:
            k = rng.choice([1, w, w - 1, w // 2, rng.randint(1, w)])
            main.append("wv trunc %d %s %d" % (w, wv_fmt(a), k))
        else:
            z = rng.choice([rng.randint(I64MIN, I64MAX), rng.randint(-300, 300), 2 ** 63, -(2 ** 64)])
            if rng.random() < 0.5:
                main.append("wv mkz %d %d" % (w, z))
            else:
                z2 = z + rng.choice([rng.randrange(0, m), m - 1, m, m + rng.randrange(0, 50), 3 * m + 7,
                                     rng.randrange(0, min(m, 40))])
                if not (I64MIN <= z2 <= I64MAX):
                    z2 = z
                main.append("wv mkzz %d %d %d" % (w, z, z2))
    for w in (1, 8, 64):
        main.append("wv slimit %d" % w)
        main.append("wv ulimit %d" % w)
        main.append("wv default %d" % w)
    return main, err


# ------------------------------------------------------------------ stage-2 oracle

def wv_parse_case(s, w):
    if s in ("bot", "top"):
        return s
    a, b = s.split(":")
    m = 2 ** w
    return (int(a) % m, int(b) % m)


def wv_members(i, w, rng, limit=20):
    """all members of a small interval, a sample aimed at the poles otherwise"""
    m = 2 ** w
    if i == "bot":
        return []
    if i == "top":
        s, ln = 0, m - 1
    else:
        s, ln = i[0], (i[1] - i[0]) % m
    if ln + 1 <= limit:
        return [(s + d) % m for d in range(ln + 1)]
    offs = {0, 1, 2, ln, ln - 1, ln - 2, ln // 2}
    for p in (0, 1, m - 1, m - 2, 2 ** (w - 1), 2 ** (w - 1) - 1, 2 ** (w - 1) + 1):
        d = (p - s) % m
        if d <= ln:
            offs.add(d)
    while len(offs) < 16:
        offs.add(rng.randint(0, ln))
    return [(s + d) % m for d in sorted(offs)]


_ANS = re.compile(r"^\[(\d+),(\d+)\]@(\d+)$")


def wv_parse_answer(ans):
    if ans == "_|_":
        return "bot"
    if ans == "top":
        return "top"
    mm = _ANS.match(ans)
    if not mm:
        return None
    return (int(mm.group(1)), int(mm.group(2)), int(mm.group(3)))


def wv_in(r, v, w):
    """membership of the w-bit value v in a parsed answer"""
    if r == "bot":
        return False
    if r == "top":
        return True
    s, e, rw = r
    if rw != w:
        return False
    m = 2 ** w
    return (v - s) % m <= (e - s) % m


def wv_concrete(op, x, y, w):
    """list of results of the bit-vector operation (empty if undefined)"""
    m = 2 ** w
    if op in ("add", "addeq"): return [(x + y) % m]
    if op in ("sub", "subeq"): return [(x - y) % m]
    if op in ("mul", "muleq"): return [(x * y) % m]
    if op in ("sdiv", "div", "diveq"): return [tdiv(signed(x, w), signed(y, w)) % m] if y else []
    if op == "udiv": return [x // y] if y else []
    if op == "srem": return [trem(signed(x, w), signed(y, w)) % m] if y else []
    if op == "urem": return [x % y] if y else []
    if op == "and": return [x & y]
    if op == "or": return [x | y]
    if op == "xor": return [x ^ y]
    if y >= 64: return []
    if op == "shl": return [(x << y) % m]
    if op == "lshr": return [x >> y]
    if op == "ashr": return [(signed(x, w) >> y) % m]
    return []


def oracle_wv(line, ans, rng):
    t = line.split()
    op, w = t[1], int(t[2])
    if w < 1 or w > 64:
        return None
    if ans in ("ABORT", "MISSING"):
        # an abort where the operation is defined on every member is a failure of the
        # property (there is no result interval); the documented errors are left to the
        # comparison with the model
        if op in WV_BIN + WV_BIN_ALIAS and not (op == "widen" and w == 1):
            b = wv_parse_case(t[4], w)
            if op in ("shl", "lshr", "ashr") and b not in ("bot", "top") and (b[0] >= 64 or b[1] >= 64):
                return None
            return "%s stopped with an error although the operation is defined on the operands" % line
        return None
    m = 2 ** w
    if op == "mkz":
        z = int(t[3])
        r = wv_parse_answer(ans)
        return None if wv_in(r, z % m, w) else "%s = %s does not contain %d mod 2^%d" % (line, ans, z, w)
    if op == "mkzz":
        lo, hi = int(t[3]), int(t[4])
        r = wv_parse_answer(ans)
        for z in {lo, hi, (lo + hi) // 2, lo + 1 if lo < hi else lo, lo + (hi - lo) // 3, hi - 1 if lo < hi else hi,
                  lo + min(hi - lo, m - 1), lo + min(hi - lo, m // 2)}:
            if lo <= z <= hi and not wv_in(r, z % m, w):
                return "%s = %s does not contain %d mod 2^%d" % (line, ans, z, w)
        return None
    if op in ("slimit", "ulimit", "default", "write", "crosss", "crossu"):
        return None
    a = wv_parse_case(t[3], w)
    xs = wv_members(a, w, rng)
    if op == "isbot":
        return None if ans == ("true" if a == "bot" else "false") else "%s answered %s" % (line, ans)
    if op == "istop":
        return None if ans == ("true" if wv_is_top(a, w) else "false") else "%s answered %s" % (line, ans)
    if op == "issingleton":
        exp = a not in ("bot", "top") and a[0] == a[1] and not wv_is_top(a, w)
        return None if ans == ("true" if exp else "false") else "%s answered %s" % (line, ans)
    if op == "at":
        n = int(t[4]) % m
        if a == "bot": exp = False
        elif wv_is_top(a, w): exp = True
        else: exp = (n - a[0]) % m <= (a[1] - a[0]) % m
        return None if ans == ("true" if exp else "false") else \
            "%s: membership of %d answered %s" % (line, n, ans)
    if op == "toitv":
        if ans == "[-oo, +oo]":
            return None
        mm = re.match(r"^\[(-?\d+), (-?\d+)\]$", ans)
        for x in xs:
            sx = signed(x, w)
            if mm is None or not (int(mm.group(1)) <= sx <= int(mm.group(2))):
                return "%s = %s but the member %d (signed %d) is not in it" % (line, ans, x, sx)
        return None
    r = wv_parse_answer(ans)
    if r is None and op not in ("leq", "eq", "ne"):
        return "%s: unparsable answer %r" % (line, ans)
    if op == "neg":
        for x in xs:
            if not wv_in(r, (-x) % m, w):
                return "%s = %s but -(%d) = %d is not in it" % (line, ans, x, (-x) % m)
        return None
    if op in ("lowers", "loweru", "uppers", "upperu"):
        sg = op.endswith("s")
        lo, hi = (-(2 ** (w - 1)), 2 ** (w - 1) - 1) if sg else (0, m - 1)
        for x in xs:
            v = signed(x, w) if sg else x
            cands = [v, lo, hi, v - 1, v + 1, (v + lo) // 2, (v + hi) // 2]
            for c in cands:
                if lo <= c <= hi and ((c <= v) if op.startswith("lower") else (c >= v)):
                    if not wv_in(r, c % m, w):
                        return "%s = %s but %d (%s %d, a member) is not in it" % (
                            line, ans, c % m, "below" if op.startswith("lower") else "above", x)
        return None
    if op in ("zext", "sext", "trunc"):
        k = int(t[4])
        for x in xs:
            if op == "zext": v, rw = x, w + k
            elif op == "sext": v, rw = signed(x, w) % (2 ** (w + k)), w + k
            else:
                if k >= w: v, rw = x, w
                else: v, rw = x % (2 ** k), k
            if not wv_in(r, v, rw):
                return "%s = %s but %s(%d) = %d at width %d is not in it" % (line, ans, op, x, v, rw)
        return None
    b = wv_parse_case(t[4], w)
    ys = wv_members(b, w, rng)
    if op in ("leq", "eq", "ne"):
        if (op == "leq" and ans == "true") or (op == "eq" and ans == "true") or (op == "ne" and ans == "false"):
            for x in xs:
                if not wv_in_case(b, x, w):
                    return "%s answered %s but %d is in the left operand only" % (line, ans, x)
            if op != "leq":
                for y in ys:
                    if not wv_in_case(a, y, w):
                        return "%s answered %s but %d is in the right operand only" % (line, ans, y)
        return None
    if op in ("join", "widen"):
        for v in xs + ys:
            if not wv_in(r, v, w):
                return "%s = %s but %d is in an operand" % (line, ans, v)
        return None
    if op in ("meet", "narrow"):
        for v in xs + ys:
            if wv_in_case(a, v, w) and wv_in_case(b, v, w) and not wv_in(r, v, w):
                return "%s = %s but %d is in both operands" % (line, ans, v)
        return None
    if op == "trim":
        if b not in ("bot", "top") and b[0] == b[1] and not wv_is_top(b, w):
            for x in xs:
                if x != b[0] and not wv_in(r, x, w):
                    return "%s = %s but %d (different from %d) is in the left operand" % (line, ans, x, b[0])
        return None
    for x in xs:
        for y in ys:
            for v in wv_concrete(op, x, y, w):
                if not wv_in(r, v, w):
                    return "%s = %s but %s(%d, %d) = %d (mod 2^%d) is not in it" % (line, ans, op, x, y, v, w)
    return None


def wv_in_case(i, v, w):
    if i == "bot":
        return False
    if i == "top":
        return True
    m = 2 ** w
    return (v - i[0]) % m <= (i[1] - i[0]) % m


def oracle(line, ans, rng=None):
    rng = rng or random.Random(1)
    if line.startswith("wi "):
        return oracle_wi(line, ans)
    if line.startswith("wv "):
        return oracle_wv(line, ans, rng)
    return None


def nontrivial(line, ans):
    """wi: the case did not abort and an operand or the answer is different from 0;
    wv: no operand is bottom and the answer is neither bottom, top nor an abort"""
    t = line.split()
    if ans in ("ABORT", "MISSING"):
        return False
    if t[0] == "wi":
        return any(x not in ("0",) for x in t[3:]) or ans.split()[0] not in ("0", "false")
    if "bot" in t[3:]:
        return False
    return ans not in ("_|_", "top")
