"""Case generator and property-level oracle for the wrapint family (property C13).

Stage 1, crab::wrapint     :  wi <op> <width> <args...>   operands are uint64 decimals
Stage 2, wrapped_interval  :  wv <op> <width> <args...>   intervals are  bot | top | s:e

The oracle is independent python code: integers modulo 2^w for stage 1 (the property pins
the answer, so any difference is a failing input), enumeration / sampling of the members of
the argument intervals for stage 2 (membership of op(x, y) in the implementation's answer)."""
import random, re

M64 = 2 ** 64
I64MIN, I64MAX = -(2 ** 63), 2 ** 63 - 1

WI_BIN_ARITH = ["add", "sub", "mul", "and", "or", "xor", "addeq", "subeq", "muleq"]
WI_BIN_DIV = ["sdiv", "udiv", "srem", "urem", "div", "rem"]
WI_BIN_CMP = ["eq", "ne", "lt", "le", "gt", "ge"]
WI_BIN_SHIFT = ["shl", "lshr", "ashr"]
WI_UN = ["u64", "bw", "getu", "gets", "ustr", "sstr", "write", "msb", "iszero", "neg", "preinc",
         "predec", "postinc", "postdec", "rtu", "rts"]
WI_STATIC = ["smax", "smin", "umax", "umin"]


def signed(a, w):
    return a - 2 ** w if a >= 2 ** (w - 1) else a


def tdiv(x, y):
    q = abs(x) // abs(y)
    return q if (x >= 0) == (y >= 0) else -q


def trem(x, y):
    return x - y * tdiv(x, y)


def boundary(w):
    m = 2 ** w
    vals = {0, 1, 2 ** (w - 1) - 1, 2 ** (w - 1), m - 1, m - 2, 2 % m, 3 % m, (2 ** (w - 1) + 1) % m,
            (m // 3) % m}
    return sorted(v % m for v in vals)


def shift_amounts(w):
    m = 2 ** w
    c = {0, 1, 2, w - 1, w, w + 1, w // 2, 31, 32, 33, 62, 63}
    return sorted(k for k in c if 0 <= k < 64 and k < m)


def rand_operand(rng, w):
    m = 2 ** w
    k = rng.random()
    if k < 0.3:
        return rng.choice(boundary(w))
    if k < 0.5:
        return (rng.choice([0, 2 ** (w - 1), m]) + rng.randint(-4, 4)) % m
    if k < 0.7:
        return rng.randrange(0, min(m, 256))
    return rng.randrange(0, m)


def wi_pair_lines(w, a, b, ops):
    return ["wi %s %d %d %d" % (op, w, a, b) for op in ops]


def gen_wi(seed, tier):
    """returns (main lines, lines expected to abort or to hit a checked error path)"""
    rng = random.Random(seed)
    main, err = [], []
    # corpus: past failures first
    corpus = ["wi ashr 8 128 1", "wi ashr 64 9223372036854775808 0", "wi ashr 8 128 8", "wi ashr 8 128 9",
              "wi ashr 8 200 63", "wi ashr 64 18446744073709551615 63", "wi ashr 3 5 2",
              "wi keep 64 18446744073709551615 63", "wi keep 64 9223372036854775809 63",
              "wi keep 8 255 3", "wi sdiv 64 9223372036854775808 18446744073709551615",
              "wi div 64 9223372036854775808 18446744073709551615",
              "wi sdiv 8 128 255", "wi srem 64 9223372036854775808 18446744073709551615",
              "wi rts 64 9223372036854775808", "wi mkz 8 -1", "wi mkq 8 7 2", "wi mkq 8 -7 2",
              "wi sext 8 128 56", "wi sext 1 1 63", "wi shl 8 3 63", "wi lshr 8 255 8"]
    main += corpus
    err += ["wi keep 8 255 0", "wi rtu 64 9223372036854775808", "wi mkz 64 9223372036854775808",
            "wi mkz 8 -9223372036854775809", "wi udiv 8 5 0", "wi sdiv 8 5 0", "wi urem 64 5 0",
            "wi srem 1 1 0", "wi mku64 65 1", "wi mku64 0 1", "wi zext 8 128 57", "wi sext 64 1 1",
            "wi mkq 64 18446744073709551617 2", "wi div 16 7 0", "wi rem 16 7 0"]
    all_bin = WI_BIN_ARITH + WI_BIN_DIV + WI_BIN_CMP
    # exhaustive for small widths
    for w in (1, 2, 3, 4):
        m = 2 ** w
        for a in range(m):
            for b in range(m):
                ops = all_bin + WI_BIN_SHIFT
                for op in ops:
                    l = "wi %s %d %d %d" % (op, w, a, b)
                    if op in WI_BIN_DIV and b == 0:
                        if a in (0, 1, m - 1) and w in (1, 3):
                            err.append(l)
                    else:
                        main.append(l)
            for op in WI_UN:
                l = "wi %s %d %d" % (op, w, a)
                main.append(l)
            for k in range(0, 6):
                main.append("wi keep %d %d %d" % (w, a, k) if k > 0 else "wi zext %d %d 0" % (w, a))
                main.append("wi sext %d %d %d" % (w, a, k))
                main.append("wi zext %d %d %d" % (w, a, k))
            for k in (60 - w, 64 - w):
                main.append("wi sext %d %d %d" % (w, a, k))
                main.append("wi zext %d %d %d" % (w, a, k))
    # boundary stream: all widths x boundary operands x all operations
    for w in range(1, 65):
        m = 2 ** w
        bs = boundary(w)
        for op in WI_STATIC:
            main.append("wi %s %d" % (op, w))
        for a in bs:
            for op in WI_UN:
                if op == "rtu" and a > I64MAX:
                    if a in (2 ** 63, M64 - 1):
                        err.append("wi rtu %d %d" % (w, a))
                    continue
                main.append("wi %s %d %d" % (op, w, a))
            for n in (a, a + m if a + m < M64 else a, (a + 5 * m) % M64, M64 - 1 - a):
                main.append("wi mku64 %d %d" % (w, n))
            main.append("wi mkstr %d %d" % (w, (a + m) % M64))
            for z in (a, -a, signed(a, w), a - m, a + m, a - 3 * m):
                if I64MIN <= z <= I64MAX:
                    main.append("wi mkz %d %d" % (w, z))
                    main.append("wi fitsz %d %d" % (w, z))
            for k in sorted({0, 1, 64 - w, 63 - w, (64 - w) // 2} - {-1}):
                if k >= 0:
                    main.append("wi sext %d %d %d" % (w, a, k))
                    main.append("wi zext %d %d %d" % (w, a, k))
            for k in sorted({1, w - 1, w, w + 1, w // 2, 63, 64}):
                if k >= 1:
                    main.append("wi keep %d %d %d" % (w, a, k))
            for k in shift_amounts(w):
                for op in WI_BIN_SHIFT:
                    main.append("wi %s %d %d %d" % (op, w, a, k))
        pairs = [(a, b) for a in bs for b in bs]
        if tier == "quick" and w not in (1, 2, 7, 8, 16, 31, 32, 33, 63, 64):
            rng.shuffle(pairs)
            pairs = pairs[:24]
        for (a, b) in pairs:
            for op in all_bin:
                if op in WI_BIN_DIV and b == 0:
                    continue
                main.append("wi %s %d %d %d" % (op, w, a, b))
    for w in (8, 64):
        for a in (0, 1, 2 ** (w - 1), 2 ** w - 1):
            for op in WI_BIN_DIV:
                err.append("wi %s %d %d 0" % (op, w, a))
    for z in (2 ** 63, -(2 ** 63) - 1, 2 ** 64, 2 ** 64 - 1, 2 ** 100, -(2 ** 100)):
        for w in (1, 8, 64):
            err.append("wi mkz %d %d" % (w, z))
            main.append("wi fitsz %d %d" % (w, z))
    for w in (65, 100):
        main.append("wi fitsz %d 5" % w)
    for (w, k) in ((64, 1), (8, 57), (33, 32), (1, 64), (63, 2)):
        err.append("wi sext %d %d %d" % (w, 1, k))
        err.append("wi zext %d %d %d" % (w, 1, k))
    # structured random
    nrand = 12000 if tier == "quick" else 400000
    for _ in range(nrand):
        w = rng.choice([rng.randint(1, 64), rng.randint(1, 64), rng.choice([1, 2, 7, 8, 16, 32, 63, 64])])
        m = 2 ** w
        a, b = rand_operand(rng, w), rand_operand(rng, w)
        k = rng.random()
        if k < 0.45:
            op = rng.choice(all_bin)
            if op in WI_BIN_DIV and b == 0:
                b = 1 + rng.randrange(0, m - 1) if m > 1 else 1
                b %= m
                if b == 0:
                    b = 1
            main.append("wi %s %d %d %d" % (op, w, a, b))
        elif k < 0.65:
            sh = rng.choice(shift_amounts(w) + [rng.randrange(0, 64)] * 3)
            if sh >= m:
                sh = sh % m
            main.append("wi %s %d %d %d" % (rng.choice(WI_BIN_SHIFT), w, a, sh))
        elif k < 0.75:
            op = rng.choice(WI_UN)
            if op == "rtu" and a > I64MAX:
                op = "rts"
            main.append("wi %s %d %d" % (op, w, a))
        elif k < 0.85:
            op = rng.choice(["sext", "zext", "keep"])
            if op == "keep":
                main.append("wi keep %d %d %d" % (w, a, rng.randint(1, 64)))
            else:
                main.append("wi %s %d %d %d" % (op, w, a, rng.randint(0, 64 - w)))
        elif k < 0.92:
            z = rng.choice([rng.randint(I64MIN, I64MAX), rng.randint(-300, 300), signed(a, w), a])
            if not (I64MIN <= z <= I64MAX):
                z = signed(a, w)
            main.append("wi %s %d %d" % (rng.choice(["mkz", "fitsz"]), w, z))
        elif k < 0.96:
            num = rng.choice([rng.randint(-2 ** 62, 2 ** 62), rng.randint(-50, 50)])
            den = rng.choice([1, 2, 3, 7, rng.randint(1, 1000)])
            main.append("wi %s %d %d %d" % (rng.choice(["mkq", "mkq", "fitsq"]), w, num, den))
        else:
            n = rng.choice([rng.randrange(0, M64), a])
            main.append("wi %s %d %d" % (rng.choice(["mku64", "mkstr"]), w, n))
    return main, err


# ------------------------------------------------------------------ stage-1 oracle

def wi_expected(t):
    """the answer arithmetic modulo 2^w pins down; 'ABORT' where the class documents a
    checked error (division by zero, width outside 1..64, big integer outside int64)"""
    op = t[1]
    w = int(t[2])
    args = [int(x) for x in t[3:]]

    def W(n, ww=None):
        ww = w if ww is None else ww
        return "%d %d" % (n % (2 ** ww), ww)
    if op == "fitsz":
        return "true" if (w <= 64 and I64MIN <= args[0] <= I64MAX) else "false"
    if op == "fitsq":
        c = -((-args[0]) // args[1])
        return "true" if (w <= 64 and I64MIN <= c <= I64MAX) else "false"
    if w < 1 or w > 64:
        return "ABORT"
    m = 2 ** w
    if op == "mku64" or op == "mkstr":
        return W(args[0])
    if op == "mkz":
        return W(args[0]) if I64MIN <= args[0] <= I64MAX else "ABORT"
    if op == "mkq":
        c = -((-args[0]) // args[1])
        return W(c) if I64MIN <= c <= I64MAX else "ABORT"
    if op == "smax": return W(2 ** (w - 1) - 1)
    if op == "smin": return W(2 ** (w - 1))
    if op == "umax": return W(m - 1)
    if op == "umin": return W(0)
    a = args[0] % m
    if len(args) == 1:
        if op == "u64": return str(a)
        if op == "bw": return str(w)
        if op in ("getu", "ustr", "write"): return str(a)
        if op in ("gets", "sstr"): return str(signed(a, w))
        if op == "msb": return "true" if a >= 2 ** (w - 1) else "false"
        if op == "iszero": return "true" if a == 0 else "false"
        if op == "neg": return W(-a)
        if op == "preinc": return W(a + 1) + " " + W(a + 1)
        if op == "predec": return W(a - 1) + " " + W(a - 1)
        if op == "postinc": return W(a) + " " + W(a + 1)
        if op == "postdec": return W(a) + " " + W(a - 1)
        if op == "rtu": return W(a) if a <= I64MAX else "ABORT"
        if op == "rts": return W(a)
        return None
    k = args[1]
    if op == "sext":
        return W(signed(a, w), w + k) if w + k <= 64 else "ABORT"
    if op == "zext":
        return W(a, w + k) if w + k <= 64 else "ABORT"
    if op == "keep":
        if k >= w: return W(a)
        if k == 0: return "ABORT"
        return W(a, k)
    b = k % m
    sa, sb_ = signed(a, w), signed(b, w)
    if op == "add": return W(a + b)
    if op == "sub": return W(a - b)
    if op == "mul": return W(a * b)
    if op == "addeq": return W(a + b) + " " + W(a + b)
    if op == "subeq": return W(a - b) + " " + W(a - b)
    if op == "muleq": return W(a * b) + " " + W(a * b)
    if op in ("sdiv", "div"): return W(tdiv(sa, sb_)) if b != 0 else "ABORT"
    if op in ("srem", "rem"): return W(trem(sa, sb_)) if b != 0 else "ABORT"
    if op == "udiv": return W(a // b) if b != 0 else "ABORT"
    if op == "urem": return W(a % b) if b != 0 else "ABORT"
    if op == "and": return W(a & b)
    if op == "or": return W(a | b)
    if op == "xor": return W(a ^ b)
    if op == "eq": return "true" if a == b else "false"
    if op == "ne": return "true" if a != b else "false"
    if op == "lt": return "true" if a < b else "false"
    if op == "le": return "true" if a <= b else "false"
    if op == "gt": return "true" if a > b else "false"
    if op == "ge": return "true" if a >= b else "false"
    if b >= 64:
        return None          # shift by >= 64: undefined behaviour in the C++, out of scope
    if op == "shl": return W(a << b)
    if op == "lshr": return W(a >> b)
    if op == "ashr": return W(sa >> b)
    return None


def oracle_wi(line, ans):
    t = line.split()
    exp = wi_expected(t)
    if exp is None or exp == ans:
        return None
    w = t[2]
    return ("crab::wrapint, width %s: %s answered %r but arithmetic modulo 2^%s gives %r"
            % (w, " ".join(t[1:]), ans, w, exp))


def oracle(line, ans, rng=None):
    if line.startswith("wi "):
        return oracle_wi(line, ans)
    return None


def nontrivial(line, ans):
    """stage 1: the case did not abort and an operand or the answer is different from 0"""
    t = line.split()
    if ans in ("ABORT", "MISSING"):
        return False
    if t[0] == "wi":
        return any(x not in ("0",) for x in t[3:]) or ans.split()[0] not in ("0", "false")
    return True


def key(line):
    return " ".join(line.split()[:2])
