"""Generator and property-level oracle for the stream `crawler-callsite` (C18, call-site step of the assertion crawler:
transfer_function::callee_to_caller / apply_summary / the statements of visit(callsite_t&)).

Case lines (tokens separated by blanks; a list is n,n,n or - ; a map is k:n,n;k:;k:n or - ):
   c2c <tag> <vars> <fins> <ins>                                   answer {n,n}
   as  <tag> <outs> <fouts> <fins> <ins> <dpd> <sdd>               answer [k:{..};k:{..}]
   cs  <tag> <outs> <fouts> <fins> <ins> <amd> <sdm> <camd> <csdd> answer amd=[..] sdm=[..]
<tag> = policy.  Generated vectors: |outs| = |fouts|, |ins| = |fins| (crab's type checker of call sites; the C++
calls CRAB_ERROR otherwise), outs pairwise distinct, fins pairwise distinct; everything else is free: the caller's
variables may be named like the callee's formals, the actuals may be a permutation of the formals or repeat a
variable, outputs may be inputs, fouts may repeat, summaries may be empty / mention variables that are not formals.

ORACLE (independent of the Coq model): dependence semantics on concrete callees.  The callee's j-th output is a
linear function with random non-zero coefficients of exactly the callee-entry values of the variables of
csdd[fouts_j] (a constant when the set is empty or the key is missing).  The entry store binds formal k to the value
of actual k; any other variable is, by a random choice, a local of the callee with a fixed value or shared by name
with the caller.  The call writes output j into outs_j.  For every fact (key -> V) of the caller's maps a linear
observation with non-zero coefficients over exactly V is evaluated after the call; for every fact of the callee's
assertion map one over the callee's entry store.  The reported set R for that key must be SUFFICIENT: changing the
caller's store outside R (all such variables at once, and one at a time) must not change the observation.  A key of
an input map that is missing in the answer is reported as a lost fact.
"""
import random, re

POOL = list(range(1, 9))


def L(xs):
    return ",".join(str(x) for x in xs) if xs else "-"


def M(m):
    return ";".join("%d:%s" % (k, ",".join(str(x) for x in v)) for k, v in m) if m else "-"


def parse_list(s):
    return [] if s == "-" else [int(x) for x in s.split(",") if x != ""]


def parse_map(s):
    r = {}
    if s == "-":
        return r
    for e in s.split(";"):
        if not e:
            continue
        k, v = e.split(":")
        r[int(k)] = parse_list(v if v else "-")      # a later binding replaces an earlier one (`set`)
    return r


def parse_set_answer(s):
    m = re.fullmatch(r"\{([0-9,\-]*)\}", s)
    if not m:
        return None
    return set(int(x) for x in m.group(1).split(",") if x)


def parse_map_answer(s):
    m = re.fullmatch(r"\[(.*)\]", s)
    if not m:
        return None
    r = {}
    for e in m.group(1).split(";"):
        if not e:
            continue
        k, v = e.split(":")
        sv = parse_set_answer(v)
        if sv is None:
            return None
        r[int(k)] = sv
    return r


# ---------------------------------------------------------------- generator

CORPUS = [
    # the three failing inputs of e852a9c (p=1 q=2 r=3 a=4 x=5 o=6 i=7), assertion id 10, main has no outputs / output 8
    "cs corpus 3 3 1,2 2,1 10:3 - - 3:1,2",
    "cs corpus 5 6 7 4 10:5,6 - - 6:7",
    "cs corpus 5 6 7 4 10:5,7 - - 6:7",
    "as corpus 3 3 1,2 2,1 8:3 3:1,2",
    "as corpus 5 6 7 4 8:5,6 6:7",
    "as corpus 5 6 7 4 8:5,7 6:7",
    "c2c corpus 1,2 1,2 2,1",
    # the callee's assertion over its formals, a permutation at the call site
    "cs corpus 3 3 1,2 2,1 10:3 8:3,8 20:1;21:2;22:1,2 3:1,2",
    # 3-cycle of names, two outputs swapped
    "cs corpus 1,2 2,1 1,2,3 2,3,1 10:1;11:2;12:1,2,3 1:1;2:2 20:3 1:1;2:2,3",
    # an output that depends on nothing is dropped; a formal output never assigned depends on itself (non-formal)
    "cs corpus 5 6 7 4 10:5;11:5,4 5:5 - 6:",
    "cs corpus 5 6 7 4 10:5;11:5,4 5:5 - -",
    "cs corpus 5 6 7 4 10:5 5:5 20:6,7 6:6",
    # outputs equal to inputs:  (a) := f(a)
    "cs corpus 4 6 7 4 10:4 4:4 20:7 6:7",
    # repeated actual:  (x) := f(a,a)
    "cs corpus 5 6 1,2 4,4 10:5 5:5 20:1,2 6:1,2",
    # no inputs, no outputs
    "cs corpus - - - - 10:1,2 3:3 20:4 -",
    # the same assertion id on both sides (callee called twice)
    "cs corpus 5 6 7 4 20:5,1 - 20:7 6:7",
    # empty caller maps
    "cs corpus 5 6 7 4 - - 20:7;21: 6:7",
    # key with an empty set stays
    "as corpus 5 6 7 4 8:;9:5 6:7",
]

POLICIES = ["perm", "ident", "shared", "disjoint", "repeat", "outin", "empty", "nonformal"]


def rsub(rng, pool, lo=0, hi=None):
    hi = len(pool) if hi is None else min(hi, len(pool))
    return rng.sample(pool, rng.randint(min(lo, hi), hi))


def one_case(rng, pol):
    nin = rng.randint(0, 4)
    nout = rng.randint(0 if rng.random() < 0.1 else 1, 3)
    if pol == "disjoint":
        callee_pool = list(range(1, 7))
        caller_pool = list(range(11, 19))
    else:
        callee_pool = POOL
        caller_pool = POOL
    fins = rng.sample(callee_pool, min(nin, len(callee_pool)))
    nin = len(fins)
    # formal outputs: usually distinct from the formal inputs, sometimes not, sometimes repeated
    rest = [v for v in callee_pool if v not in fins] or callee_pool
    if pol == "outin" and rng.random() < 0.5:
        fouts = [rng.choice(callee_pool) for _ in range(nout)]
    else:
        fouts = [rng.choice(rest) for _ in range(nout)] if rng.random() < 0.15 else rng.sample(rest, min(nout, len(rest)))
    nout = len(fouts)
    if pol == "perm":
        ins = fins[:]
        rng.shuffle(ins)
    elif pol == "ident":
        ins = fins[:]
    elif pol == "repeat" and nin:
        base = rsub(rng, caller_pool, 1, 2)
        ins = [rng.choice(base) for _ in range(nin)]
    else:
        ins = [rng.choice(caller_pool) for _ in range(nin)]
    if pol == "ident" and len(set(fouts)) == nout:
        outs = fouts[:]
    elif pol == "outin" and ins:
        cand = list(dict.fromkeys(ins + caller_pool))
        outs = cand[:nout] if rng.random() < 0.5 else rng.sample(caller_pool, nout)
    elif pol == "perm" and len(set(fouts)) == nout:
        outs = fouts[:]
        rng.shuffle(outs)
    else:
        outs = rng.sample(caller_pool, nout)
    # callee summary
    csdd = []
    for o in dict.fromkeys(fouts):
        if pol == "empty" and rng.random() < 0.6:
            if rng.random() < 0.5:
                csdd.append((o, []))
            continue
        if rng.random() < 0.08:
            continue
        dep = rsub(rng, fins, 0, 3)
        if pol == "nonformal" or rng.random() < 0.15:
            dep += [v for v in rsub(rng, callee_pool, 0, 2) if v not in dep]
        csdd.append((o, dep))
    if rng.random() < 0.1:       # a key that is not a formal output (a local the callee's crawler tracked)
        k = rng.choice(callee_pool)
        if k not in [o for o, _ in csdd]:
            csdd.append((k, rsub(rng, callee_pool, 0, 2)))
    rng.shuffle(csdd)

    def caller_set():
        s = rsub(rng, caller_pool, 0, 4)
        for o in outs:          # call results are in the facts after the call most of the time
            if rng.random() < 0.6 and o not in s:
                s.append(o)
        if pol != "disjoint" and rng.random() < 0.5:      # a caller's variable named like a formal
            v = rng.choice(fins + fouts) if fins + fouts else rng.choice(caller_pool)
            if v not in s:
                s.append(v)
        rng.shuffle(s)
        return s
    ids = rng.sample(range(10, 40), 6)
    amd = [(ids[i], caller_set()) for i in range(rng.randint(0, 3))]
    camd = [(ids[5 - i], rsub(rng, callee_pool if rng.random() < 0.3 else (fins or callee_pool), 0, 3)) for i in range(rng.randint(0, 3))]
    if amd and camd and rng.random() < 0.2:
        camd[0] = (amd[0][0], camd[0][1])
    couts = rsub(rng, caller_pool, 0, 2)
    sdm = [(o, caller_set()) for o in couts]
    return fins, fouts, ins, outs, csdd, amd, camd, sdm


def gen(seed, tier):
    rng = random.Random(seed * 104729 + 18)
    lines = list(CORPUS)
    n = 90 if tier == "quick" else 1500
    for pol in POLICIES:
        for _ in range(n):
            fins, fouts, ins, outs, csdd, amd, camd, sdm = one_case(rng, pol)
            r = rng.random()
            if r < 0.7:
                lines.append("cs %s %s %s %s %s %s %s %s %s" % (pol, L(outs), L(fouts), L(fins), L(ins), M(amd), M(sdm), M(camd), M(csdd)))
            elif r < 0.88:
                dpd = sdm or [(k, v) for k, v in amd]
                lines.append("as %s %s %s %s %s %s %s" % (pol, L(outs), L(fouts), L(fins), L(ins), M(dpd), M(csdd)))
            else:
                w = camd[0][1] if camd else rsub(rng, POOL, 0, 4)
                lines.append("c2c %s %s %s %s" % (pol, L(w), L(fins), L(ins)))
    return lines


def key(line):
    return " ".join(line.split()[:2])


def nontrivial(line, answer):
    """a call result occurs in a fact of the caller and the summary of the corresponding formal output contains a
    formal input (the substitution through the call is exercised), or (c2c) the set contains a formal input whose
    actual has a different name; and the answer is a well-formed one."""
    t = line.split()
    if answer in ("ABORT", "TIMEOUT", "MISSING") or answer.startswith("HARNESS"):
        return False
    if t[0] == "c2c":
        w, fins, ins = parse_list(t[2]), parse_list(t[3]), parse_list(t[4])
        return any(v in fins and ins[fins.index(v)] != v for v in w)
    outs, fouts, fins = parse_list(t[2]), parse_list(t[3]), parse_list(t[4])
    sdd = parse_map(t[-1])
    maps = [parse_map(t[6])] if t[0] == "as" else [parse_map(t[6]), parse_map(t[7])]
    for m in maps:
        for V in m.values():
            for v in V:
                if v in outs and any(x in fins for x in sdd.get(fouts[outs.index(v)], [])):
                    return True
    return False


# ---------------------------------------------------------------- oracle

class Lin:
    """linear observation with non-zero coefficients over exactly the variables of V"""
    def __init__(self, rng, V):
        self.c = {v: rng.choice([-1, 1]) * rng.randint(1, 10 ** 6) for v in set(V)}
        self.k = rng.randint(-10 ** 6, 10 ** 6)

    def __call__(self, st):
        return self.k + sum(c * st[v] for v, c in self.c.items())


def _world(rng, t):
    """concrete callee + call semantics for the vectors of a case"""
    outs, fouts, fins, ins = (parse_list(x) for x in t[2:6])
    sdd = parse_map(t[-1])
    univ = set(outs + fouts + fins + ins)
    for x in t[6:]:
        for k, v in parse_map(x).items():
            univ.update(v)
    univ.update(sdd.keys())
    univ = sorted(univ | {0, 99})
    local = {v: rng.randint(-10 ** 9, 10 ** 9) for v in univ if v not in fins and rng.random() < 0.5}
    outf = [Lin(rng, sdd.get(o, [])) for o in fouts]

    def entry(st):
        e = {}
        for v in univ:
            if v in fins:
                e[v] = st[ins[fins.index(v)]]
            elif v in local:
                e[v] = local[v]
            else:
                e[v] = st[v]
        return e

    def call(st):
        e = entry(st)
        res = [f(e) for f in outf]
        s2 = dict(st)
        for o, r in zip(outs, res):
            s2[o] = r
        return s2
    return univ, entry, call


def _insufficient(rng, univ, obs, R):
    """a pair of stores that agree on R with different observations, or None"""
    free = [v for v in univ if v not in R]
    if not free:
        return None
    for trial in range(3):
        st = {v: rng.randint(-10 ** 9, 10 ** 9) for v in univ}
        base = obs(st)
        alts = [free] + [[v] for v in free]
        for ch in alts:
            s2 = dict(st)
            for v in ch:
                s2[v] = rng.randint(-10 ** 9, 10 ** 9)
            if obs(s2) != base:
                return "stores %s and %s agree on the reported set but differ on {%s}: observation %d vs %d" % (
                    sorted(st.items()), sorted(s2.items()), ",".join(map(str, ch)), base, obs(s2))
    return None


def oracle(line, answer, rng):
    rng = rng or random.Random(1)
    t = line.split()
    if answer in ("ABORT", "TIMEOUT", "MISSING") or answer.startswith("HARNESS"):
        return "the implementation gave no answer (%s) on a well-formed call site" % answer
    if t[0] == "c2c":
        R = parse_set_answer(answer)
        if R is None:
            return "unreadable answer " + answer
        W, fins, ins = parse_list(t[2]), parse_list(t[3]), parse_list(t[4])
        tt = ["as", t[1], "-", "-", t[3], t[4], "-", "9:" + ",".join(map(str, W))]
        univ, entry, call = _world(rng, tt)
        g = Lin(rng, W)
        w = _insufficient(rng, univ, lambda st: g(entry(st)), R)
        return w and ("callee_to_caller: a condition over the callee's entry values of {%s} does not depend only on the reported %s; %s"
                      % (t[2], answer, w))
    outs = parse_list(t[2])
    if len(set(outs)) != len(outs):
        return None            # the meaning of a call with a repeated result variable is not fixed
    if t[0] == "as":
        res = {"dpd": parse_map_answer(answer)}
        maps = [("dpd", parse_map(t[6]), False)]
    else:
        m = re.fullmatch(r"amd=(\S+) sdm=(\S+)", answer)
        if not m:
            return "unreadable answer " + answer
        res = {"amd": parse_map_answer(m.group(1)), "sdm": parse_map_answer(m.group(2))}
        maps = [("amd", parse_map(t[6]), False), ("sdm", parse_map(t[7]), False), ("amd", parse_map(t[8]), True)]
    if any(v is None for v in res.values()):
        return "unreadable answer " + answer
    univ, entry, call = _world(rng, t)
    for name, m, callee_side in maps:
        for k, V in m.items():
            if k not in res[name]:
                return "the fact of key %d (%s) is lost: not in the answer's %s" % (k, "callee's assertion" if callee_side else "caller", name)
            f = Lin(rng, V)
            obs = (lambda st: f(entry(st))) if callee_side else (lambda st: f(call(st)))
            w = _insufficient(rng, univ, obs, res[name][k])
            if w:
                return ("%s fact %d -> {%s}: the observation %s does not depend only on the reported set {%s} before the call; %s"
                        % ("callee's" if callee_side else "caller's " + name, k, ",".join(map(str, V)),
                           "at the callee's entry" if callee_side else "after the call",
                           ",".join(map(str, sorted(res[name][k]))), w))
    if t[0] == "cs":
        extra = set(res["amd"]) - set(parse_map(t[6])) - set(parse_map(t[8]))
        if extra:
            return "assertion ids %s invented by the call-site step" % sorted(extra)
    return None
