"""Inter-procedural programs (format: harness/intertext.hpp): generator and an independent
concrete interpreter with a call stack, used as the property-level oracle of C09 / C10.

Concrete call semantics (the one the analyzers claim, coq/Ana/InterSem.v): the callee runs on
its own store in which the formal inputs hold the values of the actual parameters and every
other variable holds an arbitrary value; when the end of the callee's exit block is reached the
values of its formal outputs are copied into the lhs variables of the callsite; no other
variable of the caller changes.  Well-formed functions never assign their formal inputs."""
import random, re, zlib
from domhist import fmt_exp, fmt_cst, gen_exp, gen_cst, holds, parse_itv, in_itv
from cfgprog import rand_stmt, negate, parse_stmt, exec_stmt, Tok, p_cst, POOL


# ------------------------------------------------------------------ generation

def stmt_def(st):
    """variable assigned by a textual base statement (None if none)"""
    t = st.split()
    if t[0] in ("assign", "havoc", "select"):
        return int(t[1])
    if t[0] in ("arith", "bit"):
        return int(t[2])
    return None


def safe_stmt(rng, nv, forbidden):
    for _ in range(30):
        st = rand_stmt(rng, nv, allow=("assign", "arith", "assume", "havoc", "select"))
        if stmt_def(st) not in forbidden:
            return st
    return "assume C le E 0 0"


def gen_iprogram(rng, recursive=False, opts=None):
    opts = opts or {}
    nv = rng.randint(3, 6)
    nf = rng.randint(2, 5)
    # signatures
    sigs = [([], [])]
    for f in range(1, nf):
        nin = rng.choice([0, 1, 1, 2, 2, 3])
        nout = rng.choice([0, 1, 1, 1, 2])
        while nin + nout > nv:
            nin = max(0, nin - 1)
            if nin + nout > nv:
                nout = max(0, nout - 1)
        vs = rng.sample(range(nv), nin + nout)
        if rng.random() < 0.3:
            vs = sorted(vs)       # many functions then use the same low names
        sigs.append((vs[:nin], vs[nin:]))
    funcs = []
    for f in range(nf):
        ins, outs = sigs[f]
        blocks = [[]]
        edges = []

        def new_block():
            blocks.append([])
            return len(blocks) - 1

        def callees():
            if recursive:
                return list(range(1, nf))
            return list(range(f + 1, nf))

        def call_stmt():
            cs = callees()
            if not cs:
                return None
            g = rng.choice(cs)
            gin, gout = sigs[g]
            cand = [v for v in range(nv) if v not in ins]
            if len(cand) < len(gout):
                return None
            lhs = rng.sample(cand, len(gout))
            # actual parameters: bias towards clashes with the callee's formals and the lhs
            args = []
            for i in range(len(gin)):
                r = rng.random()
                if r < 0.25 and len(gin) > 1:
                    args.append(gin[(i + 1) % len(gin)])       # a formal of the callee at another position
                elif r < 0.4 and lhs:
                    args.append(rng.choice(lhs))               # output overwrites the argument
                elif r < 0.5:
                    args.append(gin[i])                        # same name, same position
                else:
                    args.append(rng.randrange(nv))
            return "call %d %d %s%d %s" % (g, len(lhs), "".join("%d " % v for v in lhs), len(args),
                                           " ".join("%d" % v for v in args))

        def fill(b, n=None):
            for _ in range(rng.randint(0, 3) if n is None else n):
                if rng.random() < (0.35 if f == 0 else 0.25):
                    c = call_stmt()
                    if c:
                        blocks[b].append(c.strip())
                        continue
                blocks[b].append(safe_stmt(rng, nv, ins))

        def build(cur, depth):
            for _ in range(rng.randint(0, 2)):
                if len(blocks) > 6:
                    break
                shape = rng.choices(["seq", "diamond", "loop"], [3, 2, 2 if depth < 1 else 0])[0]
                if shape == "seq":
                    n = new_block(); edges.append((cur, n)); fill(n); cur = n
                elif shape == "diamond":
                    t, fb, j = new_block(), new_block(), new_block()
                    c = gen_cst(rng, nv, kinds=("le", "lt", "eq"), small=True, maxterms=2)
                    blocks[t].append("assume %s" % fmt_cst(c))
                    blocks[fb].append("assume %s" % fmt_cst(negate(c)))
                    fill(t, rng.randint(0, 2)); fill(fb, rng.randint(0, 2))
                    edges.extend([(cur, t), (cur, fb), (t, j), (fb, j)]); cur = j
                else:
                    cand = [v for v in range(nv) if v not in ins]
                    if not cand:
                        continue
                    x = rng.choice(cand)
                    lo, hi = rng.choice([(0, 10), (0, 3), (1, 100), (-5, 5), (0, 1)])
                    step = rng.choice([1, 1, 2, 3])
                    blocks[cur].append("assign %d E 0 %d" % (x, lo))
                    h, body, ex = new_block(), new_block(), new_block()
                    edges.append((cur, h))
                    blocks[body].append("assume C le E 1 1 %d %d" % (x, -(hi - 1)))
                    blocks[ex].append("assume C le E 1 -1 %d %d" % (x, hi))
                    edges.extend([(h, body), (h, ex)])
                    # the loop body must not reassign the counter through a call output or a random statement
                    n0 = len(blocks[body])
                    fill(body, rng.randint(0, 2))
                    blocks[body][n0:] = [s for s in blocks[body][n0:] if not writes(s, x)]
                    blocks[body].append("arith add %d %d k %d" % (x, x, step))
                    edges.append((body, h))
                    cur = ex
            return cur

        if recursive and f > 0 and ins and rng.random() < 0.6:
            # terminating recursion template on the first input: if (a <= 0) base else call with a - 1
            a = ins[0]
            cand = [v for v in range(nv) if v not in ins]
            base, rec, j = new_block(), new_block(), new_block()
            blocks[base].append("assume C le E 1 1 %d 0" % a)
            blocks[rec].append("assume C le E 1 -1 %d 1" % a)
            fill(base, rng.randint(0, 2))
            if cand:
                t = rng.choice(cand)
                blocks[rec].append("arith sub %d %d k 1" % (t, a))
                g = rng.choice([f, (f % (nf - 1)) + 1, (f % (nf - 1)) + 1, rng.randrange(1, nf)])
                gin, gout = sigs[g]
                candl = [v for v in range(nv) if v not in ins]
                if len(candl) >= len(gout):
                    lhs = rng.sample(candl, len(gout))
                    args = [t if i == 0 else rng.randrange(nv) for i in range(len(gin))]
                    blocks[rec].append(("call %d %d %s%d %s" % (g, len(lhs), "".join("%d " % v for v in lhs), len(args),
                                                                " ".join("%d" % v for v in args))).strip())
            fill(rec, rng.randint(0, 1))
            edges.extend([(0, base), (0, rec), (base, j), (rec, j)])
            last = build(j, 0)
        else:
            fill(0)
            last = build(0, 0)
        # outputs get a value before the exit (mostly)
        for o in outs:
            if rng.random() < 0.85:
                blocks[last].append(safe_stmt_to(rng, nv, o))
        ex = last if rng.random() < 0.93 else -1
        funcs.append(dict(ins=ins, outs=outs, blocks=blocks, edges=edges, exit=ex))
    return nv, funcs


def writes(st, x):
    t = st.split()
    if t[0] == "call":
        no = int(t[2])
        return x in [int(v) for v in t[3:3 + no]]
    return stmt_def(st) == x


def safe_stmt_to(rng, nv, o):
    r = rng.random()
    if r < 0.5:
        return "assign %d %s" % (o, fmt_exp(gen_exp(rng, nv, small=True)))
    op = rng.choice(["add", "add", "sub", "mul"])
    z = ("v %d" % rng.randrange(nv)) if rng.random() < 0.5 else ("k %d" % rng.choice([1, 2, 3, -1, 5]))
    return "arith %s %d %d %s" % (op, o, rng.randrange(nv), z)


def fmt_iprogram(nv, funcs, opts=(), init=None):
    parts = ["inter %d %d" % (len(funcs), nv) + "".join(" %s=%s" % kv for kv in opts)]
    for i, F in enumerate(funcs):
        parts.append(("F %d %d %d I %d %s O %d %s" % (i, len(F["blocks"]), F["exit"], len(F["ins"]),
                                                     " ".join(map(str, F["ins"])), len(F["outs"]),
                                                     " ".join(map(str, F["outs"])))).replace("  ", " ").strip())
    for i, F in enumerate(funcs):
        for b, st in enumerate(F["blocks"]):
            if st:
                parts.append("B %d %d %s" % (i, b, " ; ".join(st)))
        if F["edges"]:
            parts.append("E %d " % i + " ".join("%d %d" % e for e in F["edges"]))
    if init:
        parts.append("I " + init)
    return " | ".join(parts)


CORPUS_TD = [
    # caller and callee share names, arguments swapped (fixed defect: sequential unification)
    "inter 2 4 | F 0 1 0 I 0 O 0 | F 1 1 0 I 2 0 1 O 1 2 | B 0 0 assign 0 E 0 1 ; assign 1 E 0 10 ; call 1 1 3 2 1 0 | B 1 0 arith sub 2 0 v 1",
    # the lhs of the callsite has the name of a formal input of the callee (fixed defect)
    "inter 2 4 | F 0 1 0 I 0 O 0 | F 1 1 0 I 1 0 O 1 1 | B 0 0 assign 2 E 0 5 ; call 1 1 0 1 2 | B 1 0 arith add 1 0 k 1",
    # the lhs has the name of another formal output
    "inter 2 5 | F 0 1 0 I 0 O 0 | F 1 1 0 I 1 0 O 2 1 2 | B 0 0 assign 3 E 0 5 ; call 1 2 2 4 1 3 | B 1 0 arith add 1 0 k 1 ; arith add 2 0 k 2",
    # output overwrites the argument
    "inter 2 3 | F 0 1 0 I 0 O 0 | F 1 1 0 I 1 0 O 1 1 | B 0 0 assign 2 E 0 5 ; call 1 1 2 1 2 ; call 1 1 2 1 2 | B 1 0 arith add 1 0 k 1",
    # a cycle of the call graph entered through a function that is not its head (fixed defect)
    "inter 3 6 | F 0 1 0 I 0 O 0 | F 1 4 3 I 1 0 O 1 1 | F 2 1 0 I 1 0 O 1 1 | B 0 0 assign 2 E 0 5 ; call 2 1 3 1 2 ; call 1 1 5 1 2 | B 1 1 assume C le E 1 1 0 0 ; assign 1 E 0 0 | B 1 2 assume C le E 1 -1 0 1 ; arith sub 4 0 k 1 ; call 2 1 1 1 4 | B 2 0 call 1 1 1 1 0 | E 1 0 1 0 2 1 3 2 3",
    # repeated calls with different contexts
    "inter 2 4 | F 0 1 0 I 0 O 0 | F 1 1 0 I 1 0 O 1 1 | B 0 0 assign 2 E 0 0 ; call 1 1 3 1 2 ; assign 2 E 0 2 ; call 1 1 3 1 2 ; assign 2 E 0 7 ; call 1 1 3 1 2 ; assign 2 E 0 1 ; call 1 1 3 1 2 | B 1 0 select 1 C eq E 1 1 0 -1 E 0 100 E 1 1 0 0",
]
# joined calling contexts (known finding: the joined summary is not a summary)
CORPUS_MCC = [
    "inter 2 4 mcc=1 | F 0 1 0 I 0 O 0 | F 1 1 0 I 1 0 O 1 1 | B 0 0 assign 2 E 0 0 ; call 1 1 3 1 2 ; assign 2 E 0 2 ; call 1 1 3 1 2 ; assign 2 E 0 7 ; call 1 1 3 1 2 ; assign 2 E 0 1 ; call 1 1 3 1 2 | B 1 0 select 1 C eq E 1 1 0 -1 E 0 100 E 1 1 0 0",
]


# analyze_recursive_functions = true (fixed defects)
CORPUS_REC1 = [
    # the fixpoint of a recursive function converges in the first iteration: its invariants were never stored
    "inter 2 4 rec=1 | F 0 1 0 I 0 O 0 | F 1 1 0 I 1 0 O 1 1 | B 0 0 assign 2 E 0 0 ; call 1 1 3 1 2 | B 1 0 call 1 1 1 1 0 ; arith add 1 1 k 1",
    # two call graph entries reach the same cycle through different functions: a summary computed from a running fixpoint was stored
    "inter 5 4 rec=1 | F 0 5 4 I 0 O 0 | F 1 2 1 I 0 O 1 0 | F 2 7 6 I 0 O 0 | F 3 5 4 I 3 1 2 0 O 0 | F 4 4 3 I 1 1 O 1 2 | B 0 0 call 4 1 3 1 3 | B 0 2 call 3 0 3 0 3 0 | E 0 0 1 1 2 1 3 2 1 3 4 | B 1 1 call 4 1 3 1 2 | E 1 0 1 | B 2 5 call 4 1 2 1 1 | E 2 0 1 0 2 1 3 2 3 3 4 3 5 4 6 5 6 | B 3 1 call 1 1 3 0 | E 3 0 1 1 2 1 3 2 4 3 4 | B 4 2 call 1 1 2 0 | E 4 0 1 0 2 1 3 2 3",
]


def with_opts(line, opts):
    h, rest = line.split(" | ", 1)
    t = h.split()
    keep = [x for x in t[3:] if x.split("=")[0] not in dict(opts)]
    return " ".join(t[:3] + keep + ["%s=%s" % kv for kv in opts]) + " | " + rest


def rand_init(rng, nv):
    if rng.random() < 0.3:
        v = rng.randrange(nv)
        return "C le E 1 -1 %d %d C le E 1 1 %d %d" % (v, rng.randint(-3, 3), v, -rng.randint(3, 9))
    return None


def gen(seed, tier, stream, n=None):
    """streams: td-nonrec (mirrored), td-rec (recursion, imprecise mode mirrored), td-params (oracle + checker only),
    bu-nonrec, bu-rec, bu-zones"""
    rng = random.Random(seed)
    lines = []
    an = "bu" if stream.startswith("bu") else "td"
    quick = tier == "quick"
    n = n or {"td-nonrec": 1500 if quick else 25000, "td-rec": 1000 if quick else 15000, "td-params": 1200 if quick else 20000,
              "td-mcc": 600 if quick else 10000,
              "bu-nonrec": 1500 if quick else 25000, "bu-rec": 1000 if quick else 15000, "bu-zones": 500 if quick else 8000}[stream]
    if stream in ("td-nonrec", "bu-nonrec", "bu-zones", "td-rec", "bu-rec", "td-params"):
        for c in CORPUS_TD:
            if stream in ("td-nonrec", "bu-nonrec") and is_recursive(parse(c)):
                continue
            o = [("an", an)]
            if stream == "bu-zones":
                o.append(("budom", "zones"))
            if stream == "td-params":
                o += [("thr", 10), ("rec", 1)]
            lines.append(with_opts(c, o))
    if stream == "td-mcc":
        lines += CORPUS_MCC
    if stream == "td-params":
        lines += CORPUS_REC1
    for _ in range(n):
        recursive = stream in ("td-rec", "bu-rec") or (stream in ("td-params", "td-mcc") and rng.random() < 0.4)
        nv, funcs = gen_iprogram(rng, recursive=recursive)
        o = [("an", an), ("delay", rng.choice([0, 1, 2, 2, 3])), ("desc", rng.choice([0, 1, 2, 2, 3]))]
        if an == "td":
            o.append(("exact", rng.choice([0, 1, 1])))
            if stream == "td-mcc":
                o.append(("mcc", rng.choice([0, 1, 1, 2])))
            if stream == "td-params":
                o += [("thr", rng.choice([0, 5, 20])), ("rec", rng.choice([0, 1, 1])), ("chk", rng.choice([0, 1]))]
                if rng.random() < 0.3:
                    o.append(("mcc", rng.choice([0, 1, 2])))
        if stream == "bu-zones":
            o.append(("budom", "zones"))
        init = rand_init(rng, nv)
        if an == "bu" and init is not None:
            # bottom_up_inter_analyzer gives init to ONE function without callers (the first SCC of its
            # topological order) and top to the others: init is only used when main is the only one
            called = set(int(st.split()[1]) for F in funcs for b in F["blocks"] for st in b if st.startswith("call "))
            if len([f for f in range(len(funcs)) if f not in called]) != 1:
                init = None
        lines.append(fmt_iprogram(nv, funcs, o, init))
    return lines


# ------------------------------------------------------------------ parsing

def parse(line):
    secs = [s.split() for s in line.split(" | ")]
    h = secs[0]
    nf, nv = int(h[1]), int(h[2])
    opts = dict(o.split("=") for o in h[3:] if "=" in o)
    funcs = [None] * nf
    init = []
    for s in secs[1:]:
        if not s:
            continue
        if s[0] == "F":
            i = int(s[1]); nb = int(s[2]); ex = int(s[3])
            p = 4
            ni = int(s[p + 1]); ins = list(map(int, s[p + 2:p + 2 + ni])); p += 2 + ni
            no = int(s[p + 1]); outs = list(map(int, s[p + 2:p + 2 + no]))
            funcs[i] = dict(nb=nb, exit=ex, ins=ins, outs=outs, blocks=[[] for _ in range(nb)], edges=[])
    for s in secs[1:]:
        if not s:
            continue
        if s[0] == "B":
            F = funcs[int(s[1])]
            cur = []; stmts = []
            for t in s[3:] + [";"]:
                if t == ";":
                    if cur:
                        stmts.append(cur)
                    cur = []
                else:
                    cur.append(t)
            F["blocks"][int(s[2])] = [parse_istmt(x) for x in stmts]
        elif s[0] == "E":
            v = list(map(int, s[2:]))
            funcs[int(s[1])]["edges"] = list(zip(v[0::2], v[1::2]))
        elif s[0] == "I":
            k = Tok(s[1:])
            while k.more():
                init.append(p_cst(k))
    return dict(nf=nf, nv=nv, opts=opts, funcs=funcs, init=init)


def parse_istmt(t):
    if t[0] == "call":
        g = int(t[1]); no = int(t[2]); outs = list(map(int, t[3:3 + no]))
        ni = int(t[3 + no]); ins = list(map(int, t[4 + no:4 + no + ni]))
        return ("call", g, outs, ins)
    return parse_stmt(t)


def entries(P):
    called = set()
    for F in P["funcs"]:
        for b in F["blocks"]:
            for st in b:
                if st[0] == "call":
                    called.add(st[1])
    es = [i for i in range(P["nf"]) if i not in called]
    return es if es else list(range(P["nf"]))


def is_recursive(P):
    """the call graph has a cycle"""
    succ = {i: set() for i in range(P["nf"])}
    for i, F in enumerate(P["funcs"]):
        for b in F["blocks"]:
            for st in b:
                if st[0] == "call":
                    succ[i].add(st[1])
    color = {}

    def dfs(u):
        color[u] = 1
        for v in succ[u]:
            if color.get(v) == 1 or (v not in color and dfs(v)):
                return True
        color[u] = 2
        return False
    return any(u not in color and dfs(u) for u in range(P["nf"]))


# ------------------------------------------------------------------ concrete interpreter with a call stack

class Frame:
    __slots__ = ("f", "b", "pc", "s", "entry", "ret")

    def __init__(self, f, s, ret):
        self.f, self.b, self.pc, self.s, self.entry, self.ret = f, 0, 0, s, list(s), ret


def run_concrete(P, rng, nruns=40, maxsteps=400, maxdepth=10, on_pre=None, on_post=None, on_return=None):
    """random executions from the entry functions.  Callbacks:
       on_pre(f, b, store), on_post(f, b, store), on_return(f, entry_store, exit_store)"""
    succ = []
    for F in P["funcs"]:
        d = {}
        for a, b in F["edges"]:
            d.setdefault(a, [])
            if b not in d[a]:
                d[a].append(b)
        succ.append(d)
    es = entries(P)
    for _ in range(nruns):
        s = [rng.choice(POOL) for _ in range(P["nv"])]
        for c in P["init"]:
            if c[0] == "eq" and len(c[1][0]) == 1 and abs(c[1][0][0][0]) == 1:
                s[c[1][0][0][1]] = -c[1][1] * c[1][0][0][0]
        for _try in range(20):
            if all(holds(c, s) for c in P["init"]):
                break
            s = [rng.randint(-10, 10) for _ in range(P["nv"])]
        if not all(holds(c, s) for c in P["init"]):
            continue
        stack = [Frame(rng.choice(es), s, None)]
        w = on_pre(stack[-1].f, 0, stack[-1].s) if on_pre else None
        if w:
            return w
        steps = 0
        while stack and steps < maxsteps:
            steps += 1
            fr = stack[-1]
            F = P["funcs"][fr.f]
            blk = F["blocks"][fr.b]
            if fr.pc < len(blk):
                st = blk[fr.pc]
                if st[0] == "call":
                    _, g, outs, ins = st
                    if len(stack) >= maxdepth:
                        break
                    G = P["funcs"][g]
                    cs = [rng.choice(POOL) for _ in range(P["nv"])]
                    for fo, ac in zip(G["ins"], ins):
                        cs[fo] = fr.s[ac]
                    stack.append(Frame(g, cs, outs))
                    w = on_pre(g, 0, cs) if on_pre else None
                    if w:
                        return w
                    continue
                r = exec_stmt(st, fr.s, rng)
                if r[0] != "ok":
                    break
                fr.s = r[1]
                fr.pc += 1
                continue
            # end of block
            w = on_post(fr.f, fr.b, fr.s) if on_post else None
            if w:
                return w
            nxt = succ[fr.f].get(fr.b, [])
            at_exit = (fr.b == F["exit"])
            if at_exit and (not nxt or rng.random() < 0.7):
                # return
                stack.pop()
                w = on_return(fr.f, fr.entry, fr.s) if on_return else None
                if w:
                    return w
                if not stack:
                    break
                caller = stack[-1]
                s2 = list(caller.s)
                for o, fo in zip(fr.ret, F["outs"]):
                    s2[o] = fr.s[fo]
                caller.s = s2
                caller.pc += 1
                continue
            if not nxt:
                break
            fr.b = rng.choice(nxt)
            fr.pc = 0
            w = on_pre(fr.f, fr.b, fr.s) if on_pre else None
            if w:
                return w
    return None


# ------------------------------------------------------------------ answers

def parse_state(a):
    a = a.strip()
    if a.startswith("_|_"):
        return "bot", {}
    diffs = {}
    if " D " in a or a.endswith(" D"):
        a, d = (a.split(" D", 1) + [""])[:2]
        for m in re.finditer(r"(\d+),(\d+)=(\[[^\]]*\]|_\|_)", d):
            diffs[(int(m.group(1)), int(m.group(2)))] = parse_itv(m.group(3))
    return [parse_itv(x) for x in a.strip().split("|")], diffs


def parse_answer(ans, P):
    """-> (tables[f][b] = (pre, post), summaries = [(f, (pre, prediffs), (post, postdiffs))])"""
    if " @" not in ans:
        return None
    t, s = ans.split(" @", 1)
    tabs = []
    fparts = t.split(" # ")
    if len(fparts) != P["nf"]:
        return None
    for i, fp in enumerate(fparts):
        m = re.match(r"^T(\d+) (.*)$", fp.strip())
        if not m:
            return None
        rows = []
        for p in m.group(2).split(" ; "):
            mm = re.match(r"^pre=(.*) post=(.*)$", p.strip())
            if not mm:
                return None
            rows.append((parse_state(mm.group(1))[0], parse_state(mm.group(2))[0]))
        tabs.append(rows)
    sums = []
    s = s.strip()
    if s:
        for p in s.split(" ; "):
            mm = re.match(r"^S(\d+) (.*) => (.*)$", p.strip())
            if not mm:
                return None
            sums.append((int(mm.group(1)), parse_state(mm.group(2)), parse_state(mm.group(3))))
    return tabs, sums


def inside(st, s, only=None):
    if st == "bot":
        return False
    for v in range(min(len(st), len(s))):
        if only is not None and v not in only:
            continue
        if st[v] is not None and not in_itv(st[v], s[v]):
            return False
    return True


def inside_diffs(diffs, s):
    for (i, j), itv in diffs.items():
        if itv is not None and not in_itv(itv, s[i] - s[j]):
            return False
    return True


def oracle(line, ans, rng=None):
    """C09/C10: every visited (function, block, store) must be inside the reported invariants, every
    completed call whose inputs satisfy a stored precondition must satisfy its postcondition"""
    if ans in ("ABORT", "MISSING") or ans.startswith("HARNESS"):
        return "%s: the analysis aborted" % line
    P = parse(line)
    pa = parse_answer(ans, P)
    if pa is None:
        return None
    tabs, sums = pa
    r0 = random.Random(zlib.crc32(line.encode()))

    def on_pre(f, b, s):
        if not inside(tabs[f][b][0], s):
            return "%s: an execution enters block b%d of function %d with store %s, outside the reported invariant %s" % (line, b, f, s, tabs[f][b][0])

    def on_post(f, b, s):
        if not inside(tabs[f][b][1], s):
            return "%s: an execution leaves block b%d of function %d with store %s, outside the reported invariant %s" % (line, b, f, s, tabs[f][b][1])

    def on_return(f, s0, s1):
        F = P["funcs"][f]
        for (g, (pre, pred), (post, postd)) in sums:
            if g != f:
                continue
            if pre != "bot" and inside(pre, s0, only=set(F["ins"])) and inside_diffs(pred, s0):
                fo = set(F["ins"]) | set(F["outs"])
                if not (inside(post, s1, only=fo) and inside_diffs(postd, s1)):
                    return ("%s: a call of function %d with inputs %s (store %s) returns with store %s, which violates the stored summary %s => %s"
                            % (line, f, [s0[v] for v in F["ins"]], s0, s1, pre, (post, postd)))
    return run_concrete(P, r0, on_pre=on_pre, on_post=on_post, on_return=on_return)


def nontrivial(line, ans):
    """rule: at least one function other than the entry has a reachable block whose entry invariant is neither
    bottom nor top, and at least one summary is stored"""
    P = parse(line)
    pa = parse_answer(ans, P)
    if not pa:
        return False
    tabs, sums = pa
    good = 0
    for f in range(1, P["nf"]):
        for pre, post in tabs[f]:
            if pre != "bot" and any(i not in ((None, None), None) for i in pre):
                good += 1
    return good >= 1 and len(sums) >= 1
