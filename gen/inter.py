"""Inter-procedural programs (format: harness/intertext.hpp): generator and an independent
concrete interpreter with a call stack, used as the property-level oracle of C09 / C10.

Concrete call semantics (the one the analyzers claim, coq/Ana/InterSem.v): the callee runs on
its own store in which the formal inputs hold the values of the actual parameters and every
other variable holds an arbitrary value; when the end of the callee's exit block is reached the
values of its formal outputs are copied into the lhs variables of the callsite; no other
variable of the caller changes.  Well-formed functions never assign their formal inputs."""
import random, re, zlib
from domhist import fmt_exp, fmt_cst, gen_exp, gen_cst, holds, parse_itv, in_itv
from cfgprog import rand_stmt, negate, parse_stmt, exec_stmt, Tok, p_cst, POOL


# ------------------------------------------------------------------ generation

def stmt_def(st):
    """variable assigned by a textual base statement (None if none)"""
    t = st.split()
    if t[0] in ("assign", "havoc", "select"):
        return int(t[1])
    if t[0] in ("arith", "bit"):
        return int(t[2])
    return None


def safe_stmt(rng, nv, forbidden):
    for _ in range(30):
        st = rand_stmt(rng, nv, allow=("assign", "arith", "assume", "havoc", "select"))
        if stmt_def(st) not in forbidden:
            return st
    return "assume C le E 0 0"


def gen_iprogram(rng, recursive=False, opts=None):
    opts = opts or {}
    nv = rng.randint(3, 6)
    nf = rng.randint(2, 5)
    # signatures
    sigs = [([], [])]
    for f in range(1, nf):
        nin = rng.choice([0, 1, 1, 2, 2, 3])
        nout = rng.choice([0, 1, 1, 1, 2])
        while nin + nout > nv:
            nin = max(0, nin - 1)
            if nin + nout > nv:
                nout = max(0, nout - 1)
        vs = rng.sample(range(nv), nin + nout)
        if rng.random() < 0.3:
            vs = sorted(vs)       # many functions then use the same low names
        sigs.append((vs[:nin], vs[nin:]))
    funcs = []
    for f in range(nf):
        ins, outs = sigs[f]
        blocks = [[]]
        edges = []

        def new_block():
            blocks.append([])
            return len(blocks) - 1

        def callees():
            if recursive:
                return list(range(1, nf))
            return list(range(f + 1, nf))

        def call_stmt():
            cs = callees()
            if not cs:
                return None
            g = rng.choice(cs)
            gin, gout = sigs[g]
            cand = [v for v in range(nv) if v not in ins]
            if len(cand) < len(gout):
                return None
            lhs = rng.sample(cand, len(gout))
            # actual parameters: bias towards clashes with the callee's formals and the lhs
            args = []
            for i in range(len(gin)):
                r = rng.random()
                if r < 0.25 and len(gin) > 1:
                    args.append(gin[(i + 1) % len(gin)])       # a formal of the callee at another position
                elif r < 0.4 and lhs:
                    args.append(rng.choice(lhs))               # output overwrites the argument
                elif r < 0.5:
                    args.append(gin[i])                        # same name, same position
                else:
                    args.append(rng.randrange(nv))
            return "call %d %d %s%d %s" % (g, len(lhs), "".join("%d " % v for v in lhs), len(args),
                                           " ".join("%d" % v for v in args))

        def fill(b, n=None):
            for _ in range(rng.randint(0, 3) if n is None else n):
                if rng.random() < (0.35 if f == 0 else 0.25):
                    c = call_stmt()
                    if c:
                        blocks[b].append(c.strip())
                        continue
                blocks[b].append(safe_stmt(rng, nv, ins))

        def build(cur, depth):
            for _ in range(rng.randint(0, 2)):
                if len(blocks) > 6:
                    break
                shape = rng.choices(["seq", "diamond", "loop"], [3, 2, 2 if depth < 1 else 0])[0]
                if shape == "seq":
                    n = new_block(); edges.append((cur, n)); fill(n); cur = n
                elif shape == "diamond":
                    t, fb, j = new_block(), new_block(), new_block()
                    c = gen_cst(rng, nv, kinds=("le", "lt", "eq"), small=True, maxterms=2)
                    blocks[t].append("assume %s" % fmt_cst(c))
                    blocks[fb].append("assume %s" % fmt_cst(negate(c)))
                    fill(t, rng.randint(0, 2)); fill(fb, rng.randint(0, 2))
                    edges.extend([(cur, t), (cur, fb), (t, j), (fb, j)]); cur = j
                else:
                    cand = [v for v in range(nv) if v not in ins]
                    if not cand:
                        continue
                    x = rng.choice(cand)
                    lo, hi = rng.choice([(0, 10), (0, 3), (1, 100), (-5, 5), (0, 1)])
                    step = rng.choice([1, 1, 2, 3])
                    blocks[cur].append("assign %d E 0 %d" % (x, lo))
                    h, body, ex = new_block(), new_block(), new_block()
                    edges.append((cur, h))
                    blocks[body].append("assume C le E 1 1 %d %d" % (x, -(hi - 1)))
                    blocks[ex].append("assume C le E 1 -1 %d %d" % (x, hi))
                    edges.extend([(h, body), (h, ex)])
                    # the loop body must not reassign the counter through a call output or a random statement
                    n0 = len(blocks[body])
                    fill(body, rng.randint(0, 2))
                    blocks[body][n0:] = [s for s in blocks[body][n0:] if not writes(s, x)]
                    blocks[body].append("arith add %d %d k %d" % (x, x, step))
                    edges.append((body, h))
                    cur = ex
            return cur

        if recursive and f > 0 and ins and rng.random() < 0.6:
            # terminating recursion template on the first input: if (a <= 0) base else call with a - 1
            a = ins[0]
            cand = [v for v in range(nv) if v not in ins]
            base, rec, j = new_block(), new_block(), new_block()
            blocks[base].append("assume C le E 1 1 %d 0" % a)
            blocks[rec].append("assume C le E 1 -1 %d 1" % a)
            fill(base, rng.randint(0, 2))
            if cand:
                t = rng.choice(cand)
                blocks[rec].append("arith sub %d %d k 1" % (t, a))
                g = rng.choice([f, (f % (nf - 1)) + 1, (f % (nf - 1)) + 1, rng.randrange(1, nf)])
                gin, gout = sigs[g]
                candl = [v for v in range(nv) if v not in ins]
                if len(candl) >= len(gout):
                    lhs = rng.sample(candl, len(gout))
                    args = [t if i == 0 else rng.randrange(nv) for i in range(len(gin))]
                    blocks[rec].append(("call %d %d %s%d %s" % (g, len(lhs), "".join("%d " % v for v in lhs), len(args),
                                                                " ".join("%d" % v for v in args))).strip())
            fill(rec, rng.randint(0, 1))
            edges.extend([(0, base), (0, rec), (base, j), (rec, j)])
            last = build(j, 0)
        else:
            fill(0)
            last = build(0, 0)
        # outputs get a value before the exit (mostly)
        for o in outs:
            if rng.random() < 0.85:
                blocks[last].append(safe_stmt_to(rng, nv, o))
        ex = last if rng.random() < 0.93 else -1
        funcs.append(dict(ins=ins, outs=outs, blocks=blocks, edges=edges, exit=ex))
    return nv, funcs


def writes(st, x):
    t = st.split()
    if t[0] == "call":
        no = int(t[2])
        return x in [int(v) for v in t[3:3 + no]]
    return stmt_def(st) == x


def safe_stmt_to(rng, nv, o):
    r = rng.random()
    if r < 0.5:
        return "assign %d %s" % (o, fmt_exp(gen_exp(rng, nv, small=True)))
    op = rng.choice(["add", "add", "sub", "mul"])
    z = ("v %d" % rng.randrange(nv)) if rng.random() < 0.5 else ("k %d" % rng.choice([1, 2, 3, -1, 5]))
    return "arith %s %d %d %s" % (op, o, rng.randrange(nv), z)


def fmt_iprogram(nv, funcs, opts=(), init=None):
    parts = ["inter %d %d" % (len(funcs), nv) + "".join(" %s=%s" % kv for kv in opts)]
    for i, F in enumerate(funcs):
        parts.append(("F %d %d %d I %d %s O %d %s" % (i, len(F["blocks"]), F["exit"], len(F["ins"]),
                                                     " ".join(map(str, F["ins"])), len(F["outs"]),
                                                     " ".join(map(str, F["outs"])))).replace("  ", " ").strip())
    for i, F in enumerate(funcs):
        for b, st in enumerate(F["blocks"]):
            if st:
                parts.append("B %d %d %s" % (i, b, " ; ".join(st)))
        if F["edges"]:
            parts.append("E %d " % i + " ".join("%d %d" % e for e in F["edges"]))
    if init:
        parts.append("I " + init)
    return " | ".join(parts)


CORPUS_TD = [
    # an entry function that is recursive was analysed from the initial value only (fixed defects inter-6 / inter-7)
    "inter 1 3 | F 0 4 3 I 1 0 O 1 1 | B 0 1 assume C le E 1 -1 0 1 ; arith sub 2 0 k 1 ; call 0 1 1 1 2 | B 0 2 assume C le E 1 1 0 0 ; assign 1 E 0 0 | E 0 0 1 0 2 1 3 2 3 | I C le E 1 1 0 -5 C le E 1 -1 0 5",
    # caller and callee share names, arguments swapped (fixed defect: sequential unification)
    "inter 2 4 | F 0 1 0 I 0 O 0 | F 1 1 0 I 2 0 1 O 1 2 | B 0 0 assign 0 E 0 1 ; assign 1 E 0 10 ; call 1 1 3 2 1 0 | B 1 0 arith sub 2 0 v 1",
    # the lhs of the callsite has the name of a formal input of the callee (fixed defect)
    "inter 2 4 | F 0 1 0 I 0 O 0 | F 1 1 0 I 1 0 O 1 1 | B 0 0 assign 2 E 0 5 ; call 1 1 0 1 2 | B 1 0 arith add 1 0 k 1",
    # the lhs has the name of another formal output
    "inter 2 5 | F 0 1 0 I 0 O 0 | F 1 1 0 I 1 0 O 2 1 2 | B 0 0 assign 3 E 0 5 ; call 1 2 2 4 1 3 | B 1 0 arith add 1 0 k 1 ; arith add 2 0 k 2",
    # output overwrites the argument
    "inter 2 3 | F 0 1 0 I 0 O 0 | F 1 1 0 I 1 0 O 1 1 | B 0 0 assign 2 E 0 5 ; call 1 1 2 1 2 ; call 1 1 2 1 2 | B 1 0 arith add 1 0 k 1",
    # a cycle of the call graph entered through a function that is not its head (fixed defect)
    "inter 3 6 | F 0 1 0 I 0 O 0 | F 1 4 3 I 1 0 O 1 1 | F 2 1 0 I 1 0 O 1 1 | B 0 0 assign 2 E 0 5 ; call 2 1 3 1 2 ; call 1 1 5 1 2 | B 1 1 assume C le E 1 1 0 0 ; assign 1 E 0 0 | B 1 2 assume C le E 1 -1 0 1 ; arith sub 4 0 k 1 ; call 2 1 1 1 4 | B 2 0 call 1 1 1 1 0 | E 1 0 1 0 2 1 3 2 3",
    # repeated calls with different contexts
    "inter 2 4 | F 0 1 0 I 0 O 0 | F 1 1 0 I 1 0 O 1 1 | B 0 0 assign 2 E 0 0 ; call 1 1 3 1 2 ; assign 2 E 0 2 ; call 1 1 3 1 2 ; assign 2 E 0 7 ; call 1 1 3 1 2 ; assign 2 E 0 1 ; call 1 1 3 1 2 | B 1 0 select 1 C eq E 1 1 0 -1 E 0 100 E 1 1 0 0",
]
# joined calling contexts (known finding: the joined summary is not a summary)
CORPUS_MCC = [
    "inter 2 4 mcc=1 | F 0 1 0 I 0 O 0 | F 1 1 0 I 1 0 O 1 1 | B 0 0 assign 2 E 0 0 ; call 1 1 3 1 2 ; assign 2 E 0 2 ; call 1 1 3 1 2 ; assign 2 E 0 7 ; call 1 1 3 1 2 ; assign 2 E 0 1 ; call 1 1 3 1 2 | B 1 0 select 1 C eq E 1 1 0 -1 E 0 100 E 1 1 0 0",
]


# analyze_recursive_functions = true (fixed defects)
CORPUS_REC1 = [
    # the fixpoint of a recursive function converges in the first iteration: its invariants were never stored
    "inter 2 4 rec=1 | F 0 1 0 I 0 O 0 | F 1 1 0 I 1 0 O 1 1 | B 0 0 assign 2 E 0 0 ; call 1 1 3 1 2 | B 1 0 call 1 1 1 1 0 ; arith add 1 1 k 1",
    # two call graph entries reach the same cycle through different functions: a summary computed from a running fixpoint was stored
    "inter 5 4 rec=1 | F 0 5 4 I 0 O 0 | F 1 2 1 I 0 O 1 0 | F 2 7 6 I 0 O 0 | F 3 5 4 I 3 1 2 0 O 0 | F 4 4 3 I 1 1 O 1 2 | B 0 0 call 4 1 3 1 3 | B 0 2 call 3 0 3 0 3 0 | E 0 0 1 1 2 1 3 2 1 3 4 | B 1 1 call 4 1 3 1 2 | E 1 0 1 | B 2 5 call 4 1 2 1 1 | E 2 0 1 0 2 1 3 2 3 3 4 3 5 4 6 5 6 | B 3 1 call 1 1 3 0 | E 3 0 1 1 2 1 3 2 4 3 4 | B 4 2 call 1 1 2 0 | E 4 0 1 0 2 1 3 2 3",
]


# analyze_recursive_functions = true: hand-picked programs of the mirrored stream td-rec1
CORPUS_REC1B = [
    # f(a) { if (a >= 1) { t := a - 1; r := f(t); r := r + 1 } else r := 0 } called with a in [0, 5]
    "inter 2 5 | F 0 1 0 I 0 O 0 | F 1 4 3 I 1 0 O 1 1 | B 0 0 havoc 3 ; assume C le E 1 -1 3 0 ; assume C le E 1 1 3 -5 ; call 1 1 4 1 3 | B 1 1 assume C le E 1 -1 0 1 ; arith sub 2 0 k 1 ; call 1 1 1 1 2 ; arith add 1 1 k 1 | B 1 2 assume C le E 1 1 0 0 ; assign 1 E 0 0 | E 1 0 1 0 2 1 3 2 3",
    # the same function as the only (entry) function, initial value a in [0, 5]
    "inter 1 3 | F 0 4 3 I 1 0 O 1 1 | B 0 1 assume C le E 1 -1 0 1 ; arith sub 2 0 k 1 ; call 0 1 1 1 2 ; arith add 1 1 k 1 | B 0 2 assume C le E 1 1 0 0 ; assign 1 E 0 0 | E 0 0 1 0 2 1 3 2 3 | I C le E 1 -1 0 0 C le E 1 1 0 -5",
    # mutual recursion f1 <-> f2 entered through the head and through the other member
    "inter 3 6 | F 0 1 0 I 0 O 0 | F 1 4 3 I 1 0 O 1 1 | F 2 1 0 I 1 0 O 1 1 | B 0 0 assign 2 E 0 5 ; call 1 1 3 1 2 ; call 2 1 5 1 2 | B 1 1 assume C le E 1 1 0 0 ; assign 1 E 0 0 | B 1 2 assume C le E 1 -1 0 1 ; arith sub 4 0 k 1 ; call 2 1 1 1 4 | B 2 0 call 1 1 1 1 0 | E 1 0 1 0 2 1 3 2 3",
    # a recursive function called twice with different contexts (summary reuse by inclusion)
    "inter 2 5 | F 0 1 0 I 0 O 0 | F 1 4 3 I 1 0 O 1 1 | B 0 0 assign 3 E 0 2 ; call 1 1 4 1 3 ; assign 3 E 0 1 ; call 1 1 4 1 3 ; assign 3 E 0 9 ; call 1 1 4 1 3 | B 1 1 assume C le E 1 -1 0 1 ; arith sub 2 0 k 1 ; call 1 1 1 1 2 ; arith add 1 1 k 1 | B 1 2 assume C le E 1 1 0 0 ; assign 1 E 0 0 | E 1 0 1 0 2 1 3 2 3",
]


def nested_cycles(rng):
    """scripted: nested cycles of the call graph.  f heads the outer cycle, h the inner one, g belongs to
    both; the outer head calls the inner non-head member g directly and through h; every recursion
    terminates (the argument grows past the guards).  The function ids are permuted (the order of the
    cfgs decides which member becomes the head of the inner cycle)."""
    ids = [1, 2, 3]; rng.shuffle(ids)
    f, h, g = ids
    (x0, r0, a, a1, t, u, fr, b, b1, c, w, v, hr, d, d1, e, s_, gr) = range(18)
    L = rng.randint(2, 6); inc = rng.randint(L + 1, L + 8); K = rng.choice([50, 999]); c0 = rng.randint(0, L)
    def le(x, k): return "assume C le E 1 1 %d %d" % (x, -k)
    def ge(x, k): return "assume C le E 1 -1 %d %d" % (x, k)
    def cp(x, y): return "assign %d E 1 1 %d 0" % (x, y)
    def call(fid, out, arg): return "call %d 1 %d 1 %d" % (fid, out, arg)
    F = {}
    F[0] = dict(ins=[], outs=[], blocks=[["assign %d E 0 %d" % (x0, c0), call(f, r0, x0)]], edges=[], exit=0)
    first, second = ([le(a1, K), call(g, t, a1)], [ge(a1, K + 1), call(h, u, a1)])
    if rng.random() < 0.5:
        first, second = second, first
    F[f] = dict(ins=[a], outs=[fr], blocks=[[cp(a1, a)], first, second, [cp(fr, a1)]], edges=[(0, 1), (0, 2), (1, 3), (2, 3)], exit=3)
    F[h] = dict(ins=[b], outs=[hr],
                blocks=[[cp(b1, b)], [le(b1, L), "arith add %d %d k %d" % (c, b1, inc), call(g, w, c)],
                        [ge(b1, K + 1), call(f, v, b1)], [ge(b1, L + 1), le(b1, K)], [cp(hr, b1)]],
                edges=[(0, 1), (0, 2), (0, 3), (1, 4), (2, 4), (3, 4)], exit=4)
    F[g] = dict(ins=[d], outs=[gr],
                blocks=[[cp(d1, d)], [le(d1, L), "arith add %d %d k 1" % (e, d1), call(h, s_, e)], [ge(d1, L + 1)], [cp(gr, d1)]],
                edges=[(0, 1), (0, 2), (1, 3), (2, 3)], exit=3)
    return 18, [F[i] for i in range(4)]


def with_opts(line, opts):
    h, rest = line.split(" | ", 1)
    t = h.split()
    keep = [x for x in t[3:] if x.split("=")[0] not in dict(opts)]
    return " ".join(t[:3] + keep + ["%s=%s" % kv for kv in opts]) + " | " + rest


def rand_init(rng, nv):
    if rng.random() < 0.3:
        v = rng.randrange(nv)
        return "C le E 1 -1 %d %d C le E 1 1 %d %d" % (v, rng.randint(-3, 3), v, -rng.randint(3, 9))
    return None


def gen(seed, tier, stream, n=None):
    """streams: td-nonrec (mirrored), td-rec (recursion, imprecise mode mirrored), td-rec1 (precise recursion, mirrored),
    td-params (oracle + checker only),
    bu-nonrec, bu-rec, bu-zones"""
    rng = random.Random(seed)
    lines = []
    an = "bu" if stream.startswith("bu") else "td"
    quick = tier == "quick"
    n = n or {"td-nonrec": 1500 if quick else 25000, "td-rec": 1000 if quick else 15000, "td-params": 1200 if quick else 20000,
              "td-mcc": 600 if quick else 10000, "td-rec1": 1500 if quick else 25000,
              "bu-nonrec": 1500 if quick else 25000, "bu-rec": 1000 if quick else 15000, "bu-zones": 500 if quick else 8000}[stream]
    if stream in ("td-nonrec", "bu-nonrec", "bu-zones", "td-rec", "bu-rec", "td-params"):
        for c in CORPUS_TD:
            if stream in ("td-nonrec", "bu-nonrec") and is_recursive(parse(c)):
                continue
            o = [("an", an)]
            if stream == "bu-zones":
                o.append(("budom", "zones"))
            if stream == "td-params":
                o += [("thr", 10), ("rec", 1)]
            lines.append(with_opts(c, o))
    if stream == "td-mcc":
        lines += CORPUS_MCC
    if stream == "td-rec1":
        # analyze_recursive_functions = true, mirrored by coq/Ana/InterTDRec.v: corpus, scripted nested cycles
        # of the call graph, then random call graphs (70% with direct / mutual recursion)
        for c in CORPUS_TD + CORPUS_REC1 + CORPUS_REC1B:
            lines.append(with_opts(c, [("an", "td"), ("rec", 1)]))
            lines.append(with_opts(c, [("an", "td"), ("rec", 1), ("delay", 0), ("desc", 0), ("exact", 0)]))
        for _ in range(40 if quick else 600):
            nvn, fn = nested_cycles(rng)
            lines.append(fmt_iprogram(nvn, fn, [("an", "td"), ("rec", 1), ("delay", rng.choice([0, 1, 2, 3])), ("desc", rng.choice([0, 1, 2])),
                                                ("exact", rng.choice([0, 1]))]))
        for _ in range(n):
            nv, funcs = gen_iprogram(rng, recursive=rng.random() < 0.7)
            o = [("an", "td"), ("rec", 1), ("delay", rng.choice([0, 1, 2, 2, 3])), ("desc", rng.choice([0, 1, 2, 2, 3])),
                 ("exact", rng.choice([0, 1, 1])), ("chk", rng.choice([0, 0, 1]))]
            lines.append(fmt_iprogram(nv, funcs, o, rand_init(rng, nv)))
        return lines
    if stream == "td-params":
        lines += CORPUS_REC1
        for _ in range(16 if quick else 200):
            nvn, fn = nested_cycles(rng)
            lines.append(fmt_iprogram(nvn, fn, [("an", "td"), ("rec", 1), ("delay", rng.choice([0, 1, 2])), ("desc", rng.choice([0, 1, 2])),
                                                ("exact", rng.choice([0, 1]))] + ([("mcc", rng.choice([1, 2]))] if rng.random() < 0.2 else [])))
    for _ in range(n):
        recursive = stream in ("td-rec", "bu-rec") or (stream in ("td-params", "td-mcc") and rng.random() < 0.4)
        nv, funcs = gen_iprogram(rng, recursive=recursive)
        o = [("an", an), ("delay", rng.choice([0, 1, 2, 2, 3])), ("desc", rng.choice([0, 1, 2, 2, 3]))]
        if an == "td":
            o.append(("exact", rng.choice([0, 1, 1])))
            if stream == "td-mcc":
                o.append(("mcc", rng.choice([0, 1, 1, 2])))
            if stream == "td-params":
                o += [("thr", rng.choice([0, 5, 20])), ("rec", rng.choice([0, 1, 1])), ("chk", rng.choice([0, 1]))]
                if rng.random() < 0.3:
                    o.append(("mcc", rng.choice([0, 1, 2])))
        if stream == "bu-zones":
            o.append(("budom", "zones"))
        init = rand_init(rng, nv)
        if an == "bu" and init is not None:
            # bottom_up_inter_analyzer gives init to ONE function without callers (the first SCC of its
            # topological order) and top to the others: init is only used when main is the only one
            called = set(int(st.split()[1]) for F in funcs for b in F["blocks"] for st in b if st.startswith("call "))
            if len([f for f in range(len(funcs)) if f not in called]) != 1:
                init = None
        lines.append(fmt_iprogram(nv, funcs, o, init))
    return lines


# ------------------------------------------------------------------ parsing

def parse(line):
    secs = [s.split() for s in line.split(" | ")]
    h = secs[0]
    nf, nv = int(h[1]), int(h[2])
    opts = dict(o.split("=") for o in h[3:] if "=" in o)
    funcs = [None] * nf
    init = []
    for s in secs[1:]:
        if not s:
            continue
        if s[0] == "F":
            i = int(s[1]); nb = int(s[2]); ex = int(s[3])
            p = 4
            ni = int(s[p + 1]); ins = list(map(int, s[p + 2:p + 2 + ni])); p += 2 + ni
            no = int(s[p + 1]); outs = list(map(int, s[p + 2:p + 2 + no]))
            funcs[i] = dict(nb=nb, exit=ex, ins=ins, outs=outs, blocks=[[] for _ in range(nb)], edges=[])
    for s in secs[1:]:
        if not s:
            continue
        if s[0] == "B":
            F = funcs[int(s[1])]
            cur = []; stmts = []
            for t in s[3:] + [";"]:
                if t == ";":
                    if cur:
                        stmts.append(cur)
                    cur = []
                else:
                    cur.append(t)
            F["blocks"][int(s[2])] = [parse_istmt(x) for x in stmts]
        elif s[0] == "E":
            v = list(map(int, s[2:]))
            funcs[int(s[1])]["edges"] = list(zip(v[0::2], v[1::2]))
        elif s[0] == "I":
            k = Tok(s[1:])
            while k.more():
                init.append(p_cst(k))
    return dict(nf=nf, nv=nv, opts=opts, funcs=funcs, init=init)


def parse_istmt(t):
    if t[0] == "call":
        g = int(t[1]); no = int(t[2]); outs = list(map(int, t[3:3 + no]))
        ni = int(t[3 + no]); ins = list(map(int, t[4 + no:4 + no + ni]))
        return ("call", g, outs, ins)
    return parse_stmt(t)


def entries(P):
    called = set()
    for F in P["funcs"]:
        for b in F["blocks"]:
            for st in b:
                if st[0] == "call":
                    called.add(st[1])
    es = [i for i in range(P["nf"]) if i not in called]
    return es if es else list(range(P["nf"]))


def is_recursive(P):
    """the call graph has a cycle"""
    succ = {i: set() for i in range(P["nf"])}
    for i, F in enumerate(P["funcs"]):
        for b in F["blocks"]:
            for st in b:
                if st[0] == "call":
                    succ[i].add(st[1])
    color = {}

    def dfs(u):
        color[u] = 1
        for v in succ[u]:
            if color.get(v) == 1 or (v not in color and dfs(v)):
                return True
        color[u] = 2
        return False
    return any(u not in color and dfs(u) for u in range(P["nf"]))


# ------------------------------------------------------------------ concrete interpreter with a call stack

class Frame:
    __slots__ = ("f", "b", "pc", "s", "entry", "ret")

    def __init__(self, f, s, ret):
        self.f, self.b, self.pc, self.s, self.entry, self.ret = f, 0, 0, s, list(s), ret


def run_concrete(P, rng, nruns=40, maxsteps=400, maxdepth=10, on_pre=None, on_post=None, on_return=None):
    """random executions from the entry functions.  Callbacks:
       on_pre(f, b, store), on_post(f, b, store), on_return(f, entry_store, exit_store)"""
    succ = []
    for F in P["funcs"]:
        d = {}
        for a, b in F["edges"]:
            d.setdefault(a, [])
            if b not in d[a]:
                d[a].append(b)
        succ.append(d)
    es = entries(P)
    for _ in range(nruns):
        s = [rng.choice(POOL) for _ in range(P["nv"])]
        for c in P["init"]:
            if c[0] == "eq" and len(c[1][0]) == 1 and abs(c[1][0][0][0]) == 1:
                s[c[1][0][0][1]] = -c[1][1] * c[1][0][0][0]
        for _try in range(20):
            if all(holds(c, s) for c in P["init"]):
                break
            s = [rng.randint(-10, 10) for _ in range(P["nv"])]
        if not all(holds(c, s) for c in P["init"]):
            continue
        stack = [Frame(rng.choice(es), s, None)]
        w = on_pre(stack[-1].f, 0, stack[-1].s) if on_pre else None
        if w:
            return w
        steps = 0
        while stack and steps < maxsteps:
            steps += 1
            fr = stack[-1]
            F = P["funcs"][fr.f]
            blk = F["blocks"][fr.b]
            if fr.pc < len(blk):
                st = blk[fr.pc]
                if st[0] == "call":
                    _, g, outs, ins = st
                    if len(stack) >= maxdepth:
                        break
                    G = P["funcs"][g]
                    cs = [rng.choice(POOL) for _ in range(P["nv"])]
                    for fo, ac in zip(G["ins"], ins):
                        cs[fo] = fr.s[ac]
                    stack.append(Frame(g, cs, outs))
                    w = on_pre(g, 0, cs) if on_pre else None
                    if w:
                        return w
                    continue
                r = exec_stmt(st, fr.s, rng)
                if r[0] != "ok":
                    break
                fr.s = r[1]
                fr.pc += 1
                continue
            # end of block
            w = on_post(fr.f, fr.b, fr.s) if on_post else None
            if w:
                return w
            nxt = succ[fr.f].get(fr.b, [])
            at_exit = (fr.b == F["exit"])
            if at_exit and (not nxt or rng.random() < 0.7):
                # return
                stack.pop()
                w = on_return(fr.f, fr.entry, fr.s) if on_return else None
                if w:
                    return w
                if not stack:
                    break
                caller = stack[-1]
                s2 = list(caller.s)
                for o, fo in zip(fr.ret, F["outs"]):
                    s2[o] = fr.s[fo]
                caller.s = s2
                caller.pc += 1
                continue
            if not nxt:
                break
            fr.b = rng.choice(nxt)
            fr.pc = 0
            w = on_pre(fr.f, fr.b, fr.s) if on_pre else None
            if w:
                return w
    return None


# ------------------------------------------------------------------ answers

def parse_state(a):
    a = a.strip()
    if a.startswith("_|_"):
        return "bot", {}
    diffs = {}
    if " D " in a or a.endswith(" D"):
        a, d = (a.split(" D", 1) + [""])[:2]
        for m in re.finditer(r"(\d+),(\d+)=(\[[^\]]*\]|_\|_)", d):
            diffs[(int(m.group(1)), int(m.group(2)))] = parse_itv(m.group(3))
    return [parse_itv(x) for x in a.strip().split("|")], diffs


def parse_answer(ans, P):
    """-> (tables[f][b] = (pre, post), summaries = [(f, (pre, prediffs), (post, postdiffs))])"""
    if " @" not in ans:
        return None
    t, s = ans.split(" @", 1)
    tabs = []
    fparts = t.split(" # ")
    if len(fparts) != P["nf"]:
        return None
    for i, fp in enumerate(fparts):
        m = re.match(r"^T(\d+) (.*)$", fp.strip())
        if not m:
            return None
        rows = []
        for p in m.group(2).split(" ; "):
            mm = re.match(r"^pre=(.*) post=(.*)$", p.strip())
            if not mm:
                return None
            rows.append((parse_state(mm.group(1))[0], parse_state(mm.group(2))[0]))
        tabs.append(rows)
    sums = []
    s = s.strip()
    if s:
        for p in s.split(" ; "):
            mm = re.match(r"^S(\d+) (.*) => (.*)$", p.strip())
            if not mm:
                return None
            sums.append((int(mm.group(1)), parse_state(mm.group(2)), parse_state(mm.group(3))))
    return tabs, sums


def inside(st, s, only=None):
    if st == "bot":
        return False
    for v in range(min(len(st), len(s))):
        if only is not None and v not in only:
            continue
        if st[v] is not None and not in_itv(st[v], s[v]):
            return False
    return True


def inside_diffs(diffs, s):
    for (i, j), itv in diffs.items():
        if itv is not None and not in_itv(itv, s[i] - s[j]):
            return False
    return True


def oracle(line, ans, rng=None):
    """C09/C10: every visited (function, block, store) must be inside the reported invariants, every
    completed call whose inputs satisfy a stored precondition must satisfy its postcondition"""
    if ans in ("ABORT", "MISSING") or ans.startswith("HARNESS"):
        return "%s: the analysis aborted" % line
    P = parse(line)
    pa = parse_answer(ans, P)
    if pa is None:
        return None
    tabs, sums = pa
    r0 = random.Random(zlib.crc32(line.encode()))

    def on_pre(f, b, s):
        if not inside(tabs[f][b][0], s):
            return "%s: an execution enters block b%d of function %d with store %s, outside the reported invariant %s" % (line, b, f, s, tabs[f][b][0])

    def on_post(f, b, s):
        if not inside(tabs[f][b][1], s):
            return "%s: an execution leaves block b%d of function %d with store %s, outside the reported invariant %s" % (line, b, f, s, tabs[f][b][1])

    def on_return(f, s0, s1):
        F = P["funcs"][f]
        for (g, (pre, pred), (post, postd)) in sums:
            if g != f:
                continue
            if pre != "bot" and inside(pre, s0, only=set(F["ins"])) and inside_diffs(pred, s0):
                fo = set(F["ins"]) | set(F["outs"])
                if not (inside(post, s1, only=fo) and inside_diffs(postd, s1)):
                    return ("%s: a call of function %d with inputs %s (store %s) returns with store %s, which violates the stored summary %s => %s"
                            % (line, f, [s0[v] for v in F["ins"]], s0, s1, pre, (post, postd)))
    return run_concrete(P, r0, on_pre=on_pre, on_post=on_post, on_return=on_return)


def nontrivial(line, ans):
    """rule: at least one function other than the entry has a reachable block whose entry invariant is neither
    bottom nor top, and at least one summary is stored"""
    P = parse(line)
    pa = parse_answer(ans, P)
    if not pa:
        return False
    tabs, sums = pa
    good = 0
    for f in range(1, P["nf"]):
        for pre, post in tabs[f]:
            if pre != "bot" and any(i not in ((None, None), None) for i in pre):
                good += 1
    return good >= 1 and len(sums) >= 1


# ====================================================================== C02: verdicts of the assertion checker
# Programs WITH assertions (unique ids over all functions) and an oracle for the per-assertion verdict lists
# printed by harness/inter.cpp with verd=1.
#
# What a verdict list is (read from the code):
#   top-down (top_down_inter_analyzer, run_checker=true): every time the body of a function is analysed for a calling
#     context that is not subsumed by a stored one, check_function runs intra_checker + assert_property_checker on
#     the invariants of THAT context and appends its database to the global one (checks_db::operator+=): one letter
#     per analysed calling context (and per fixpoint iterate of the caller that produced a new context), in analysis
#     order.  A call whose context is subsumed by a stored context adds nothing (it is covered by that context's letter).
#   bottom-up (bottom_up_inter_analyzer + inter_checker): every property checker visits every block of every function
#     once, starting from the context-insensitive get_pre: one letter per assertion for the assertion checker (the
#     division checker only records statements that carry debug information: none here).
# Property C02 on a list L of assertion id (nothing is demanded when L is empty = '-'):
#   some execution reaches id with a false condition  ==>  L contains W or E
#   some execution reaches id                         ==>  L does not consist of U only
# An assertion that fails stops the execution (the analyses treat assert as assume after the check).

def _le(x, c): return "C le E 1 1 %d %d" % (x, -c)          # x <= c
def _ge(x, c): return "C le E 1 -1 %d %d" % (x, c)          # x >= c
def _lt(x, c): return "C lt E 1 1 %d %d" % (x, -c)          # x < c
def _eq(x, c): return "C eq E 1 1 %d %d" % (x, -c)
def _ne(x, c): return "C ne E 1 1 %d %d" % (x, -c)
def _dle(x, y, c): return "C le E 2 1 %d -1 %d %d" % (x, y, -c)   # x - y <= c


class _FB:
    """function under construction"""

    def __init__(self, ins, outs):
        self.ins, self.outs = ins, outs
        self.blocks = [[]]
        self.edges = []
        self.cur = 0

    def emit(self, st):
        self.blocks[self.cur].append(st)

    def new(self):
        self.blocks.append([])
        return len(self.blocks) - 1

    def seq(self):
        n = self.new()
        self.edges.append((self.cur, n))
        self.cur = n


def gen_vprogram(rng, recursive=False):
    """-> (nv, funcs, nasserts).  Shapes: one callee reached from several callsites with argument constants on
    both sides of the constants of its assertions (in both orders), assertions on returned values, assertions in
    branches of the callee taken only for some arguments, assertions followed by statements that change the
    asserted variable, unreachable callsites, callsites in diamonds and counting loops, chains main -> f -> g with g
    also called directly, terminating direct/mutual recursion."""
    nv = rng.randint(4, 6)
    nf = rng.randint(2, 4)
    K = rng.choice([0, 0, 1, 3, 5, 10])
    ids = [0]

    def near(d=2):
        return K + rng.randint(-d, d)

    sigs = [([], [])]
    for f in range(1, nf):
        nin = rng.choice([1, 2, 2, 2] if recursive else [1, 1, 1, 2])
        nout = rng.choice([0, 1, 1, 1])
        vs = rng.sample(range(nv), nin + nout)
        if rng.random() < 0.4:
            vs = sorted(vs)
        sigs.append((vs[:nin], vs[nin:]))

    def rand_assert(x, others=()):
        ids[0] += 1
        r = rng.random()
        c = near()
        if r < 0.35: t = _le(x, c)
        elif r < 0.6: t = _ge(x, c)
        elif r < 0.7: t = _eq(x, c)
        elif r < 0.8: t = _ne(x, c)
        elif r < 0.88: t = _lt(x, c)
        elif others:
            y = rng.choice(list(others))
            t = _dle(x, y, rng.randint(-2, 2)) if y != x else _le(x, c)
        else: t = _le(x, c)
        return "assert %s %d" % (t, ids[0])

    def after_assert(B, x, writable):
        """a statement after the assertion that changes what is known about x (the state at the end of the block
        differs from the state at the assertion)"""
        r = rng.random()
        if r < 0.3:
            B.emit("assume %s" % rng.choice([_le, _ge])(x, near()))
        elif r < 0.55 and x in writable:
            B.emit("assign %d E 0 %d" % (x, near()))
        elif r < 0.7 and x in writable:
            B.emit("arith add %d %d k %d" % (x, x, rng.choice([1, -1, 2, 5])))
        elif r < 0.8 and x in writable:
            B.emit("havoc %d" % x)

    def set_arg(B, x, src=None):
        """give the caller variable x a value / a range near K"""
        r = rng.random()
        if src is not None and r < 0.25:
            B.emit("arith add %d %d k %d" % (x, src, rng.choice([0, 1, -1, 2])))
        elif r < 0.65:
            B.emit("assign %d E 0 %d" % (x, near(3)))
        else:
            lo = near(3); hi = lo + rng.choice([0, 1, 2, 3, 5])
            B.emit("havoc %d" % x); B.emit("assume %s" % _ge(x, lo)); B.emit("assume %s" % _le(x, hi))

    def call_text(g, lhs, args):
        return ("call %d %d %s%d %s" % (g, len(lhs), "".join("%d " % v for v in lhs), len(args),
                                       " ".join("%d" % v for v in args))).strip()

    funcs = []
    for f in range(nf):
        ins, outs = sigs[f]
        B = _FB(ins, outs)
        writable = [v for v in range(nv) if v not in ins]
        callees = list(range(1, nf)) if recursive else list(range(f + 1, nf))

        last = [None]

        def do_call(g, argvar=None, unreachable=False):
            """emit (arg setup), a call of g, and possibly an assertion on its result; returns the lhs list"""
            gin, gout = sigs[g]
            if len(writable) < max(1, len(gout)):
                return None
            lhs = rng.sample(writable, len(gout))
            args = []
            for i in range(len(gin)):
                if i == 0 and argvar is not None:
                    args.append(argvar)
                    continue
                if i == 0 and len(gin) == 1 and last[0] is not None and last[0] not in lhs and rng.random() < 0.15:
                    args.append(last[0])
                    continue
                cand = [v for v in writable if v not in lhs] or writable
                x = rng.choice(cand)
                if last[0] is not None and rng.random() < 0.3:
                    # the value returned by the previous call of this function is passed on
                    if last[0] not in lhs and rng.random() < 0.5:
                        args.append(last[0])
                        continue
                    set_arg(B, x, src=last[0])
                else:
                    set_arg(B, x, src=(ins[0] if ins and rng.random() < 0.5 else None))
                args.append(x)
            if unreachable:
                x = args[0] if args else rng.choice(writable)
                r = rng.random()
                if r < 0.4:
                    B.emit("assume %s" % _le(x, K)); B.emit("assume %s" % _ge(x, K + 1))
                elif r < 0.7 and x in writable:
                    B.emit("assign %d E 0 %d" % (x, K)); B.emit("assume %s" % _ge(x, K + rng.choice([1, 2])))
                else:
                    B.emit("unreachable")
            B.emit(call_text(g, lhs, args))
            if lhs:
                last[0] = lhs[0]
            if lhs and rng.random() < 0.65:
                B.emit(rand_assert(lhs[0], others=args))
                if rng.random() < 0.4:
                    after_assert(B, lhs[0], writable)
            return lhs

        def episode(depth):
            """one use of a callee by this function"""
            if not callees:
                return
            g = rng.choice(callees) if rng.random() < 0.3 else callees[0] if rng.random() < 0.6 else rng.choice(callees)
            shape = rng.choices(["plain", "plain", "diamond", "loop", "dead", "afterfail"], [5, 3, 2, 2 if depth == 0 else 0, 1.5, 0.7])[0]
            if shape == "plain":
                if rng.random() < 0.3:
                    B.seq()
                do_call(g)
            elif shape == "diamond":
                x = rng.choice(writable)
                c = near()
                if rng.random() < 0.5:
                    set_arg(B, x)
                cur = B.cur
                t, e, j = B.new(), B.new(), B.new()
                B.edges.extend([(cur, t), (cur, e), (t, j), (e, j)])
                B.cur = t; B.emit("assume %s" % _le(x, c))
                if rng.random() < 0.8: do_call(g, argvar=x if rng.random() < 0.6 else None)
                B.cur = e; B.emit("assume %s" % _ge(x, c + 1))
                if rng.random() < 0.6: do_call(g, argvar=x if rng.random() < 0.6 else None)
                B.cur = j
                if rng.random() < 0.4:
                    B.emit(rand_assert(rng.choice(writable)))
            elif shape == "loop":
                x = rng.choice(writable)
                lo = near(1); hi = lo + rng.choice([1, 2, 3, 4])
                B.emit("assign %d E 0 %d" % (x, lo))
                cur = B.cur
                h, body, ex = B.new(), B.new(), B.new()
                B.edges.extend([(cur, h), (h, body), (h, ex), (body, h)])
                B.cur = body; B.emit("assume %s" % _le(x, hi - 1))
                n0 = len(B.blocks[body])
                do_call(g, argvar=x)
                B.blocks[body][n0:] = [s for s in B.blocks[body][n0:] if not writes(s, x) and not s.startswith("assume")]
                B.emit("arith add %d %d k %d" % (x, x, rng.choice([1, 1, 2])))
                B.cur = ex; B.emit("assume %s" % _ge(x, hi))
                if rng.random() < 0.5:
                    B.emit(rand_assert(x))
            elif shape == "dead":
                if rng.random() < 0.5:
                    # dead branch of a diamond
                    x = rng.choice(writable); c = near()
                    B.emit("assign %d E 0 %d" % (x, c))
                    cur = B.cur
                    t, e, j = B.new(), B.new(), B.new()
                    B.edges.extend([(cur, t), (cur, e), (t, j), (e, j)])
                    B.cur = t; B.emit("assume %s" % _ge(x, c + 1)); do_call(g, argvar=x if rng.random() < 0.5 else None)
                    B.cur = e; B.emit("assume %s" % _le(x, c))
                    B.cur = j
                else:
                    # everything after the dead call is dead too: keep it in a block without successors
                    cur = B.cur
                    d = B.new(); B.edges.append((cur, d)); n = B.new(); B.edges.append((cur, n))
                    B.cur = d; do_call(g, unreachable=True)
                    B.cur = n
            else:
                x = rng.choice(writable)
                c = near()
                B.emit("assign %d E 0 %d" % (x, c))
                ids[0] += 1
                B.emit("assert %s %d" % (rng.choice([_le(x, c - 1), _ge(x, c + 1), _ne(x, c)]), ids[0]))
                do_call(g, argvar=x if rng.random() < 0.5 else None)

        if f == 0:
            for _ in range(rng.randint(2, 5)):
                episode(0)
                if rng.random() < 0.15:
                    B.emit(safe_stmt(rng, nv, ins))
        else:
            a = ins[0]
            loc = [v for v in writable if v not in outs] or writable
            if recursive and rng.random() < 0.75:
                # terminating recursion on the first input; the other input is a payload that the members of the
                # cycle pass around with different constants / ranges
                pay = ins[1] if len(ins) > 1 else a
                cur = B.cur
                base, rec, j = B.new(), B.new(), B.new()
                B.edges.extend([(cur, base), (cur, rec), (base, j), (rec, j)])
                if rng.random() < 0.5:
                    B.emit(rand_assert(pay if rng.random() < 0.7 else a, others=ins))
                    if rng.random() < 0.3:
                        B.seq()
                        cur = B.cur
                        B.edges[-5:-1] = [(cur, base), (cur, rec), (base, j), (rec, j)]
                B.cur = base; B.emit("assume %s" % _le(a, 0))
                if rng.random() < 0.4:
                    B.emit(rand_assert(pay, others=ins))
                for o in outs:
                    B.emit(rng.choice(["assign %d E 0 %d" % (o, near()), "assign %d E 1 1 %d 0" % (o, pay)]))
                B.cur = rec; B.emit("assume %s" % _ge(a, 1))
                t = rng.choice(loc)
                B.emit("arith sub %d %d k 1" % (t, a))
                if rng.random() < 0.25:
                    B.emit(rand_assert(t, others=[a]))
                g0 = rng.choice([f, (f % (nf - 1)) + 1, (f % (nf - 1)) + 1, rng.randrange(1, nf)])
                for _k in range(rng.choice([1, 1, 2, 2, 3])):
                    g = g0 if rng.random() < 0.7 else rng.randrange(1, nf)
                    if rng.random() < 0.3:
                        B.seq()
                    do_call(g, argvar=t)
                    if any(writes(st, t) for st in B.blocks[B.cur][-2:]):     # t is no longer a - 1
                        break
                for o in outs:
                    if rng.random() < 0.7:
                        B.emit(rng.choice(["arith add %d %d k 1" % (o, o), "assign %d E 1 1 %d 0" % (o, a), "assign %d E 0 %d" % (o, near())]))
                B.edges = [(x, y) if (x, y) != (rec, j) else (B.cur, j) for (x, y) in B.edges]
                B.cur = j
                if outs and rng.random() < 0.3:
                    B.emit(rand_assert(outs[0], others=ins))
            else:
                segs = rng.sample(["guard", "branch", "inner", "loop"], rng.randint(1, 3))
                for sg in ["guard", "branch", "inner", "loop"]:
                    if sg not in segs:
                        continue
                    if sg == "guard":
                        x = a if rng.random() < 0.8 else rng.choice(ins)
                        B.emit(rand_assert(x, others=ins))
                        if rng.random() < 0.5:
                            after_assert(B, x, writable)
                    elif sg == "branch":
                        c = near()
                        cur = B.cur
                        t, e, j = B.new(), B.new(), B.new()
                        B.edges.extend([(cur, t), (cur, e), (t, j), (e, j)])
                        B.cur = t; B.emit("assume %s" % _le(a, c))
                        r = rng.random()
                        if r < 0.5:
                            B.emit(rand_assert(a))
                            if rng.random() < 0.3: after_assert(B, a, writable)
                        elif r < 0.8 and callees:
                            do_call(rng.choice(callees), argvar=a if rng.random() < 0.6 else None)
                        B.cur = e; B.emit("assume %s" % _ge(a, c + 1))
                        r = rng.random()
                        if r < 0.35:
                            B.emit(rand_assert(a))
                        elif r < 0.5 and callees:
                            do_call(rng.choice(callees), argvar=a if rng.random() < 0.6 else None)
                        elif r < 0.6:
                            ids[0] += 1
                            B.emit("assert %s %d" % (_le(a, c), ids[0]))     # false whenever reached
                        B.cur = j
                    elif sg == "inner" and callees:
                        if rng.random() < 0.5:
                            t = rng.choice(loc)
                            B.emit("arith add %d %d k %d" % (t, a, rng.choice([1, -1, 2, 0])))
                            do_call(rng.choice(callees), argvar=t)
                        else:
                            do_call(rng.choice(callees), argvar=a)
                    elif sg == "loop":
                        t = rng.choice(loc)
                        hi = rng.choice([1, 2, 3, 5])
                        B.emit("assign %d E 0 0" % t)
                        cur = B.cur
                        h, body, ex = B.new(), B.new(), B.new()
                        B.edges.extend([(cur, h), (h, body), (h, ex), (body, h)])
                        B.cur = body; B.emit("assume %s" % _le(t, hi - 1))
                        if callees and rng.random() < 0.4:
                            n0 = len(B.blocks[body])
                            do_call(rng.choice(callees), argvar=t)
                            B.blocks[body][n0:] = [s for s in B.blocks[body][n0:] if not writes(s, t) and not s.startswith("assume")]
                        B.emit("arith add %d %d k 1" % (t, t))
                        B.cur = ex; B.emit("assume %s" % _ge(t, hi))
                        if rng.random() < 0.6:
                            B.emit(rand_assert(t, others=[a]))
                for o in outs:
                    r = rng.random()
                    if r < 0.4:
                        B.emit("arith add %d %d k %d" % (o, a, rng.choice([0, 1, -1, 2, -2])))
                    elif r < 0.6:
                        B.emit("select %d %s E 0 %d E 1 1 %d 0" % (o, _le(a, near()), near(), a))
                    elif r < 0.75:
                        B.emit("assign %d E 0 %d" % (o, near()))
                    elif r < 0.9:
                        B.emit(safe_stmt_to(rng, nv, o))
                    if rng.random() < 0.25:
                        B.emit(rand_assert(o, others=ins))
                        if rng.random() < 0.4:
                            after_assert(B, o, writable)
        # a block never ends with a call's argument setup only; the current block is the exit
        ex = B.cur if rng.random() < 0.96 else -1
        funcs.append(dict(ins=ins, outs=outs, blocks=B.blocks, edges=B.edges, exit=ex))
    return nv, funcs, ids[0]


CORPUS_VERD = [
    # one callee, two calling contexts: the first proves the assertion, the second does not (and the reverse order)
    "inter 2 4 nasserts=2 | F 0 1 0 I 0 O 0 | F 1 1 0 I 1 0 O 1 1 | B 0 0 assign 2 E 0 0 ; call 1 1 3 1 2 ; assign 2 E 0 7 ; call 1 1 3 1 2 ; assert C le E 1 1 3 -5 2 | B 1 0 assert C le E 1 1 0 -3 1 ; arith add 1 0 k 1",
    "inter 2 4 nasserts=2 | F 0 1 0 I 0 O 0 | F 1 1 0 I 1 0 O 1 1 | B 0 0 assign 2 E 0 7 ; call 1 1 3 1 2 ; assign 2 E 0 0 ; call 1 1 3 1 2 ; assert C le E 1 1 3 -5 2 | B 1 0 assert C ne E 1 1 0 -7 1 ; arith add 1 0 k 1",
    # the callee's assertion holds in both contexts; the assertion on the returned value only after the first call
    "inter 2 4 nasserts=3 | F 0 1 0 I 0 O 0 | F 1 1 0 I 1 0 O 1 1 | B 0 0 assign 2 E 0 1 ; call 1 1 3 1 2 ; assert C le E 1 1 3 -2 2 ; assign 2 E 0 4 ; call 1 1 3 1 2 ; assert C le E 1 1 3 -2 3 | B 1 0 assert C le E 1 -1 0 0 1 ; arith add 1 0 k 1",
    # the assertion is false on the entry invariant of its block and the block goes on to establish it
    "inter 2 3 nasserts=2 | F 0 1 0 I 0 O 0 | F 1 1 0 I 1 0 O 1 1 | B 0 0 assign 2 E 0 5 ; call 1 1 2 1 2 ; assert C eq E 1 1 2 0 2 ; assign 2 E 0 0 | B 1 0 assert C le E 1 1 0 0 1 ; assign 1 E 0 0",
    # assertion in a branch of the callee taken only by the second call; unreachable third callsite
    "inter 2 4 nasserts=2 | F 0 3 -1 I 0 O 0 | F 1 4 3 I 1 0 O 1 1 | B 0 0 assign 2 E 0 0 ; call 1 1 3 1 2 ; assign 2 E 0 9 ; call 1 1 3 1 2 | B 0 1 assume C le E 1 1 2 0 ; call 1 1 3 1 2 | E 0 0 1 0 2 | B 1 0 assign 1 E 0 0 | B 1 1 assume C le E 1 1 0 -5 | B 1 2 assume C le E 1 -1 0 6 ; assert C le E 1 1 0 -8 1 ; assign 1 E 0 1 | B 1 3 assert C le E 1 1 1 -1 2 | E 1 0 1 0 2 1 3 2 3",
    # chain main -> f1 -> f2 with f2 also called directly from main with another argument
    "inter 3 5 nasserts=2 | F 0 1 0 I 0 O 0 | F 1 1 0 I 1 0 O 1 1 | F 2 1 0 I 1 2 O 1 3 | B 0 0 assign 4 E 0 1 ; call 1 1 1 1 4 ; assign 4 E 0 6 ; call 2 1 1 1 4 ; assert C le E 1 1 1 -4 2 | B 1 0 arith add 4 0 k 1 ; call 2 1 1 1 4 | B 2 0 assert C le E 1 1 2 -3 1 ; arith add 3 2 k 1",
    # mutual recursion, the block of the cycle's head that calls the other member has an assertion (fixed abort,
    # c02inter-1: "in checking phase we should not analyze the callsite" with analyze_recursive_functions)
    "inter 3 4 nasserts=1 | F 0 1 0 I 0 O 0 | F 1 4 3 I 1 0 O 1 2 | F 2 4 3 I 1 2 O 1 3 | B 0 0 call 1 1 1 1 0 | B 1 2 assert C le E 2 1 1 -1 0 1 1 ; call 2 1 1 1 1 | E 1 0 1 0 2 1 3 2 3 | B 2 2 call 1 1 1 1 0 | E 2 0 1 0 2 1 3 2 3",
    # a member of a call graph cycle that is not its head, called twice by the head: the first context does not prove
    # its assertion, the second does (fixed defect c02inter-2: only the last analysed context was checked)
    "inter 3 5 nasserts=1 | F 0 1 0 I 0 O 0 | F 1 4 3 I 1 0 O 1 1 | F 2 1 0 I 1 2 O 1 3 | B 0 0 assign 4 E 0 3 ; call 1 1 1 1 4 | B 1 1 assume C le E 1 1 0 0 ; assign 1 E 0 0 | B 1 2 assume C le E 1 -1 0 1 ; havoc 4 ; assume C le E 1 -1 4 5 ; assume C le E 1 1 4 -10 ; call 2 1 1 1 4 ; assign 4 E 0 5 ; call 2 1 1 1 4 | E 1 0 1 0 2 1 3 2 3 | B 2 0 assert C le E 1 1 2 -7 1 ; assign 4 E 0 0 ; call 1 1 3 1 4",
    # the cycle f1 -> f2 -> f3 -> f1 is entered by main through f2 (not its head) with an unconstrained argument and
    # later through f1, which calls f2 with a constant (fixed defect c02inter-2: the first analysis of f2 was never checked)
    "inter 4 6 nasserts=1 | F 0 8 7 I 0 O 0 | F 1 4 3 I 1 1 O 1 3 | F 2 4 3 I 2 1 3 O 0 | F 3 4 3 I 1 1 O 1 5 | B 0 3 call 2 0 2 0 2 | B 0 5 call 1 1 3 1 2 | E 0 0 1 1 2 2 3 2 4 3 2 4 5 4 6 5 7 6 7 | B 1 2 assign 5 E 0 -1 ; call 2 0 2 2 5 | E 1 0 1 0 2 1 3 2 3 | B 2 1 assert C lt E 1 1 3 -2 1 | B 2 2 call 3 1 5 1 5 | E 2 0 1 0 2 1 3 2 3 | B 3 2 assume C le E 1 -1 4 -2 ; call 1 1 2 1 4 | E 3 0 1 0 2 1 3 2 3",
    # default parameters: a block with a recursive call, an assertion and another call.  The checker re-executes the
    # block with the summary of the recursive function (the analysis used top), so the context of the second call is
    # not equal to the stored one (fixed abort, c02inter-3)
    "inter 3 6 nasserts=1 | F 0 1 0 I 0 O 0 | F 1 4 3 I 1 0 O 1 1 | F 2 1 0 I 1 4 O 1 5 | B 0 0 call 1 1 1 1 0 | B 1 1 assign 1 E 0 0 | B 1 2 call 1 1 2 1 0 ; assert C le E 1 1 2 -5 1 ; call 2 1 3 1 2 ; assign 1 E 1 1 3 0 | E 1 0 1 0 2 1 3 2 3 | B 2 0 assign 5 E 0 7",
    # recursion: the assertion holds for the outer call and fails in the recursive ones
    "inter 2 4 nasserts=1 | F 0 1 0 I 0 O 0 | F 1 4 3 I 1 0 O 1 1 | B 0 0 assign 2 E 0 3 ; call 1 1 3 1 2 | B 1 0 assert C le E 1 -1 0 3 1 | B 1 1 assume C le E 1 1 0 0 ; assign 1 E 0 0 | B 1 2 assume C le E 1 -1 0 1 ; arith sub 2 0 k 1 ; call 1 1 1 1 2 ; arith add 1 1 k 1 | E 1 0 1 0 2 1 3 2 3",
]


def gen_verdicts(seed, tier, n=None):
    """stream inter-verdicts-oracle of C02: programs with assertions x analyzer (top-down with the interleaved
    checker / bottom-up with inter_checker) x every parameter of the harness"""
    rng = random.Random(seed)
    n = n or (300 if tier == "quick" else 8000)
    lines = []
    for c in CORPUS_VERD:
        for o in ([("an", "td")], [("an", "td"), ("rec", 1)], [("an", "td"), ("mcc", 1)], [("an", "td"), ("exact", 0)],
                  [("an", "bu")], [("an", "bu"), ("props", "divzero+assert")], [("an", "bu"), ("props", "assert+divzero")]):
            lines.append(with_opts(c, o + [("verd", 1)]))
    while len(lines) < n:
        recursive = rng.random() < 0.3
        if rng.random() < 0.8:
            nv, funcs, na = gen_vprogram(rng, recursive=recursive)
        else:
            # the statement mix of C09/C10 with assertions sprinkled over the blocks
            nv, funcs = gen_iprogram(rng, recursive=recursive)
            na = 0
            for F in funcs:
                for b in F["blocks"]:
                    if rng.random() < 0.3:
                        na += 1
                        c = gen_cst(rng, nv, kinds=("le", "le", "eq", "ne", "lt"), small=True, maxterms=2)
                        b.insert(rng.randint(0, len(b)), "assert %s %d" % (fmt_cst(c), na))
        if na == 0:
            continue
        an = rng.choice(["td", "td", "td", "bu", "bu"])
        o = [("an", an), ("delay", rng.choice([0, 1, 2, 2, 3])), ("desc", rng.choice([0, 1, 2, 2, 3]))]
        if an == "td":
            o.append(("exact", rng.choice([0, 1, 1])))
            o.append(("rec", rng.choice([0, 1])))
            if rng.random() < 0.25:
                o.append(("mcc", rng.choice([0, 1, 1, 2, 3])))
            if rng.random() < 0.15:
                o.append(("thr", rng.choice([5, 20])))
        else:
            o.append(("props", rng.choice(["assert", "divzero+assert", "assert+divzero"])))
            if rng.random() < 0.2:
                o.append(("budom", "zones"))
        o += [("verd", 1), ("nasserts", na)]
        init = rand_init(rng, nv)
        if an == "bu" and init is not None:
            called = set(int(st.split()[1]) for F in funcs for b in F["blocks"] for st in b if st.startswith("call "))
            if len([f for f in range(len(funcs)) if f not in called]) != 1:
                init = None
        lines.append(fmt_iprogram(nv, funcs, o, init))
    return lines


def program_constants(P):
    """integers that occur in the program text (thresholds of the conditions, assigned constants, operands)"""
    cs = set()

    def exp(e):
        cs.add(e[1]); cs.add(-e[1])
    for F in P["funcs"]:
        for b in F["blocks"]:
            for st in b:
                k = st[0]
                if k == "assign": exp(st[2])
                elif k in ("arith", "bit"):
                    if st[4] == "k": cs.add(st[5])
                elif k in ("assume", "assert"): exp(st[1][1])
                elif k == "select": exp(st[2][1]); exp(st[3]); exp(st[4])
    for c in P["init"]:
        exp(c[1])
    return cs


def verdict_runs(P, rng, claims, nruns=200, maxsteps=300, maxdepth=12):
    """random executions from the entry functions, every source of non-determinism (initial store, the callee's
    non-parameter variables, havoc, successor, returning at an exit block that has successors, entry function)
    sampled from a pool that is dense around the constants of the program.  claims: {id: 'safe'|'unreach'} are the
    assertion ids whose verdict list makes a claim; returns None or (id, kind, store, function, block, trace) for
    the first execution that refutes a claim (kind = 'violated' | 'reached')."""
    pool = set(POOL)
    for c in program_constants(P):
        if abs(c) <= 10 ** 6:
            pool.update((c - 1, c, c + 1))
    pool = sorted(pool)
    near0 = [v for v in pool if abs(v) <= 20] or pool
    succ = []
    for F in P["funcs"]:
        d = {}
        for a, b in F["edges"]:
            d.setdefault(a, [])
            if b not in d[a]:
                d[a].append(b)
        succ.append(d)
    es = entries(P)

    def pick():
        return rng.choice(near0) if rng.random() < 0.7 else rng.choice(pool)

    def enabled(f, b, s):
        for st in P["funcs"][f]["blocks"][b]:
            if st[0] != "assume":
                return True
            if not holds(st[1], s):
                return False
        return True

    for _ in range(nruns):
        s = [pick() for _ in range(P["nv"])]
        for _try in range(60):
            if all(holds(c, s) for c in P["init"]):
                break
            s = [rng.randint(-10, 10) if _try % 2 else pick() for _ in range(P["nv"])]
        if not all(holds(c, s) for c in P["init"]):
            continue
        f0 = rng.choice(es)
        trace = ["start %s with store %s" % ("main" if f0 == 0 else "f%d" % f0, s)]
        stack = [Frame(f0, s, None)]
        steps = 0
        while stack and steps < maxsteps:
            steps += 1
            fr = stack[-1]
            F = P["funcs"][fr.f]
            blk = F["blocks"][fr.b]
            if fr.pc < len(blk):
                st = blk[fr.pc]
                k = st[0]
                if k == "call":
                    _, g, outs, ins = st
                    if len(stack) >= maxdepth:
                        break
                    G = P["funcs"][g]
                    cs = [pick() for _ in range(P["nv"])]
                    for fo, ac in zip(G["ins"], ins):
                        cs[fo] = fr.s[ac]
                    trace.append("f%d:b%d calls f%d(%s), callee store %s" % (fr.f, fr.b, g, ",".join(str(fr.s[a]) for a in ins), cs))
                    stack.append(Frame(g, cs, outs))
                    continue
                if k == "assert":
                    ok = holds(st[1], fr.s)
                    cl = claims.get(st[2])
                    if cl == "unreach" or (cl == "safe" and not ok):
                        return (st[2], "reached" if cl == "unreach" else "violated", list(fr.s), fr.f, fr.b, trace)
                    if not ok:
                        break
                    fr.pc += 1
                    continue
                if k == "havoc":
                    s2 = list(fr.s); s2[st[1]] = pick(); fr.s = s2
                    trace.append("f%d:b%d havoc v%d := %d" % (fr.f, fr.b, st[1], s2[st[1]]))
                    fr.pc += 1
                    continue
                r = exec_stmt(st, fr.s, rng)
                if r[0] != "ok":
                    break
                fr.s = r[1]
                fr.pc += 1
                continue
            nxt = succ[fr.f].get(fr.b, [])
            if fr.b == F["exit"] and (not nxt or rng.random() < 0.7):
                stack.pop()
                if not stack:
                    break
                caller = stack[-1]
                s2 = list(caller.s)
                for o, fo in zip(fr.ret, F["outs"]):
                    s2[o] = fr.s[fo]
                caller.s = s2
                caller.pc += 1
                trace.append("f%d returns (%s) to f%d" % (fr.f, ",".join(str(fr.s[fo]) for fo in F["outs"]), caller.f))
                continue
            if not nxt:
                break
            en = [n for n in nxt if enabled(fr.f, n, fr.s)]
            fr.b = rng.choice(en or nxt)
            fr.pc = 0
            trace.append("f%d:b%d" % (fr.f, fr.b))
    return None


def split_verdicts(ans):
    """-> (answer without the checks, {id: letters or '-'}) or (ans, None)"""
    if " ; checks=" not in ans:
        return ans, None
    a, c = ans.rsplit(" ; checks=", 1)
    V = {}
    i = 1
    for part in c.replace("-", "-,").split(","):
        part = part.strip()
        if part:
            V[i] = part
            i += 1
    return a, V


def verdict_claims(V):
    """ids whose list makes a claim: no W/E in a non-empty list -> 'safe' (some S) or 'unreach' (U only)"""
    cl = {}
    for i, L in V.items():
        if L == "-" or "W" in L or "E" in L:
            continue
        cl[i] = "unreach" if set(L) == {"U"} else "safe"
    return cl


def oracle_verdicts(line, ans, rng=None, nruns=200):
    """C02 for the inter-procedural analyzers: see the comment at the top of this section"""
    if ans in ("ABORT", "MISSING", "TIMEOUT") or ans.startswith("HARNESS") or "HARNESS-ERROR" in ans:
        return "%s: the analysis with the assertion checker aborted (%s)" % (line, ans[:40])
    _, V = split_verdicts(ans)
    if V is None:
        return None
    claims = verdict_claims(V)
    if not claims:
        return None
    P = parse(line)
    r0 = random.Random(zlib.crc32(line.encode()) ^ 0xc02)
    w = verdict_runs(P, r0, claims, nruns=nruns)
    if not w:
        return None
    i, kind, s, f, b, trace = w
    where = "assertion %d (function %d, block b%d)" % (i, f, b)
    if kind == "reached":
        txt = "%s has the verdict list '%s' (unreachable in every checked context) but an execution reaches it with store %s" % (where, V[i], s)
    else:
        txt = ("%s has the verdict list '%s' (no warning/error in any checked context) but an execution reaches it with store %s, "
               "where its condition is false" % (where, V[i], s))
    return "%s: %s; the execution: %s" % (line, txt, " -> ".join(trace[-40:]))


def nontrivial_verdicts(line, ans):
    """rule: at least one assertion has an S or a U in its verdict list"""
    _, V = split_verdicts(ans)
    return bool(V) and any(("S" in L or "U" in L) for L in V.values())
