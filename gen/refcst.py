"""Generator and property-level oracle for the stream `refcst-negate` (C02, reference assertions:
reference_constraint::negate() and the predicates is_tautology / is_contradiction / is_unary / is_binary).

Case line (harness/refcst.cpp and ocaml/refcst_drv.ml read the same language):
    neg <n> <tag> t | f | u <rel> <p> | b <rel> <p> <q> <k>
  rel in eq ne le lt ge gt; p, q variable numbers; k a decimal of any size; n = number of successive negations
  (1..3); tag = policy of the generator.
Answer:  c0 ; c1 ; ... ; cn   with c0 the constraint as the factory function stored it and c(i+1) = ci.negate(),
  each printed as  <KIND> <lhs|null> <rhs|null> <offset> t<0|1>c<0|1>u<0|1>b<0|1>.

ORACLE (independent of the Coq model).  Addresses are integers, null = 0.  The meaning of the INPUT constraint is
computed from the input line (p rel 0, p rel q + k, true, false); the meaning of every PRINTED constraint from its
printed fields (lhs KIND rhs + offset, a null operand is 0).  On a dense set of assignments (all pairs of small
addresses, the points around the offset on both sides, a few seeded large ones; p = q forced when the two numbers
coincide):
   * c0 means what the input says (the factory functions store the constraint faithfully),
   * c(i+1) is true exactly where ci is false (EXACT negation; no form needs the one-sided reading),
   * the flags: t=1 only if the constraint is true everywhere, c=1 only if false everywhere, u/b agree with the
     operands printed, exactly one of t c u b is set, rhs never present without lhs,
   * c2 = c0 field by field (negate is an involution on what the factories build).
"""
import random, re

RELS = ["eq", "ne", "le", "lt", "ge", "gt"]
KIND_OF = {"eq": "EQ", "ne": "DISEQ", "le": "LEQ", "lt": "LT", "ge": "GEQ", "gt": "GT"}
BIG = [2 ** 31 - 1, 2 ** 31, 2 ** 32, 2 ** 63 - 1, 2 ** 63, 2 ** 64, 2 ** 64 + 1, 10 ** 30, 3 * 2 ** 100 + 7]


def holds(kind, a, b):
    return {"EQ": a == b, "DISEQ": a != b, "LEQ": a <= b, "LT": a < b, "GEQ": a >= b, "GT": a > b}[kind]


# ---------------------------------------------------------------- generator

def corpus():
    ls = ["neg 3 corpus t", "neg 3 corpus f", "neg 1 corpus t", "neg 1 corpus f"]
    for r in RELS:
        ls.append("neg 2 corpus u %s 1" % r)
        ls.append("neg 1 corpus u %s 7" % r)
    # the boundary sweep of checks/C02_refs.py: q = p + 4, assert_ref(q REL p + k) and assert_ref(p REL q + k)
    for r in RELS:
        for k in (-8, -2, 0, 2, 4, 6, 8):
            ls.append("neg 2 corpus b %s 2 1 %d" % (r, k))
            ls.append("neg 2 corpus b %s 1 2 %d" % (r, k))
    for r in RELS:                      # the same variable on both sides: decided by k alone
        for k in (-1, 0, 1):
            ls.append("neg 2 corpus b %s 3 3 %d" % (r, k))
    return ls


def boundary(rng):
    ls = []
    for r in RELS:
        for k in [0, 1, -1] + BIG + [-b for b in BIG]:
            p, q = rng.sample(range(0, 6), 2)
            ls.append("neg %d boundary b %s %d %d %d" % (rng.choice([1, 2, 3]), r, p, q, k))
    return ls


def one(rng):
    n = rng.choice([1, 1, 2, 2, 3])
    x = rng.random()
    if x < 0.03:
        return "neg %d const %s" % (n, rng.choice("tf"))
    if x < 0.2:
        return "neg %d unary u %s %d" % (n, rng.choice(RELS), rng.randint(0, 40))
    y = rng.random()
    if y < 0.2:
        k = 0
    elif y < 0.7:
        k = rng.randint(-20, 20)
    elif y < 0.85:
        k = rng.choice([1, -1]) * rng.choice(BIG) + rng.randint(-2, 2)
    else:
        k = rng.randint(-10 ** 12, 10 ** 12)
    p = rng.randint(0, 9)
    q = p if rng.random() < 0.08 else rng.randint(0, 9)
    return "neg %d %s b %s %d %d %d" % (n, "same" if p == q else "binary", rng.choice(RELS), p, q, k)


def gen(seed, tier):
    rng = random.Random(seed * 1000003 + 4242)
    n = 1500 if tier == "quick" else 60000
    return corpus() + boundary(rng) + [one(rng) for _ in range(n)]


def key(line):
    t = line.split()
    return " ".join(t[3:5]) if t[3] in "ub" else t[3]


def nontrivial(line, answer):
    """a binary constraint with a non-zero offset, or a unary ordering constraint: the negation has to move operands,
    mirror the relation or change the sign of the offset"""
    t = line.split()
    if t[3] == "b":
        return t[7] != "0" or t[4] in ("le", "lt", "ge", "gt")
    return t[3] == "u" and t[4] in ("le", "lt", "ge", "gt")


# ---------------------------------------------------------------- oracle

SHOW = re.compile(r"^(EQ|DISEQ|LEQ|LT|GEQ|GT) (null|\d+) (null|\d+) (-?\d+) t([01])c([01])u([01])b([01])$")


def parse_show(s):
    m = SHOW.match(s.strip())
    if not m:
        return None
    return dict(kind=m.group(1), lhs=None if m.group(2) == "null" else int(m.group(2)),
                rhs=None if m.group(3) == "null" else int(m.group(3)), off=int(m.group(4)),
                t=m.group(5) == "1", c=m.group(6) == "1", u=m.group(7) == "1", b=m.group(8) == "1")


def meaning(c, env):
    a = 0 if c["lhs"] is None else env[c["lhs"]]
    b = (0 if c["rhs"] is None else env[c["rhs"]]) + c["off"]
    return holds(c["kind"], a, b)


def input_meaning(t, env):
    if t[0] == "t":
        return True
    if t[0] == "f":
        return False
    if t[0] == "u":
        return holds(KIND_OF[t[1]], env[int(t[2])], 0)
    return holds(KIND_OF[t[1]], env[int(t[2])], env[int(t[3])] + int(t[4]))


def assignments(t, cs, rng):
    vs = set()
    offs = {0}
    if t[0] == "u":
        vs.add(int(t[2]))
    if t[0] == "b":
        vs.update((int(t[2]), int(t[3])))
        offs.add(int(t[4]))
    for c in cs:                                   # whatever the answer mentions, too
        for f in ("lhs", "rhs"):
            if c[f] is not None:
                vs.add(c[f])
        offs.add(c["off"])
    vs = sorted(vs)
    if not vs:
        return [{}]
    small = list(range(-3, 12))
    if len(vs) == 1:
        pts = set(small)
        for o in offs:
            for d in (-1, 0, 1):
                pts.update((o + d, -o + d))
        return [{vs[0]: a} for a in sorted(pts)]
    envs = []
    v0, v1 = vs[0], vs[1]
    for a in small:
        for b in small:
            envs.append({v0: a, v1: b})
    for o in offs:
        for base in (0, 5, rng.randint(-10 ** 6, 10 ** 6)):
            for d in (-2, -1, 0, 1, 2):
                envs.append({v0: base, v1: base + o + d})
                envs.append({v0: base, v1: base - o + d})
                envs.append({v1: base, v0: base + o + d})
                envs.append({v1: base, v0: base - o + d})
    for e in envs:
        for v in vs[2:]:
            e[v] = rng.randint(-5, 5)
    return envs


def oracle(line, answer, rng):
    t = line.split()
    n = int(t[1])
    body = t[3:]
    if answer in ("ABORT", "MISSING") or answer.startswith("HARNESS-ERROR"):
        return "%s: negate() or a factory function aborted (%s)" % (line, answer)
    parts = answer.split(" ; ")
    if len(parts) != n + 1:
        return "%s: %d constraints printed, %d expected: %s" % (line, len(parts), n + 1, answer)
    cs = [parse_show(p) for p in parts]
    for p, c in zip(parts, cs):
        if c is None:
            return "%s: malformed constraint %r (an operand on the right of a null left operand, or two kinds)" % (line, p)
    envs = assignments(body, cs, rng)
    for i, c in enumerate(cs):
        flags = [c["t"], c["c"], c["u"], c["b"]]
        if sum(flags) != 1:
            return "%s: constraint #%d %r: not exactly one of tautology/contradiction/unary/binary" % (line, i, parts[i])
        if c["u"] != (c["lhs"] is not None and c["rhs"] is None) or c["b"] != (c["lhs"] is not None and c["rhs"] is not None):
            return "%s: constraint #%d %r: is_unary/is_binary disagree with the operands" % (line, i, parts[i])
        for e in envs:
            v = meaning(c, e)
            if c["t"] and not v:
                return "%s: constraint #%d %r claims to be a tautology but is false at %s" % (line, i, parts[i], e)
            if c["c"] and v:
                return "%s: constraint #%d %r claims to be a contradiction but is true at %s" % (line, i, parts[i], e)
    weak = None                                    # a point where both hold: reported only if no unsound point exists
    for e in envs:
        want = input_meaning(body, e)
        if meaning(cs[0], e) != want:
            return "%s: the stored constraint %r is %s at %s, the constraint asked for is %s" % (
                line, parts[0], meaning(cs[0], e), e, want)
        for i in range(n):
            if meaning(cs[i + 1], e) == meaning(cs[i], e):
                if meaning(cs[i], e):
                    if weak is None:
                        weak = "%s: negate() of %r gave %r; at addresses %s both hold (not a negation; precision only)" % (
                            line, parts[i], parts[i + 1], e)
                    continue
                return ("%s: negate() of %r gave %r; at addresses %s both are FALSE: a state violating the assertion is "
                        "excluded by the negated constraint, so assert_ref(%s) can be reported safe although it fails there"
                        % (line, parts[i], parts[i + 1], e, parts[i]))
    if weak:
        return weak
    if n >= 2:
        a, b = dict(cs[0]), dict(cs[2])
        if a != b:
            return "%s: negate().negate() = %r differs from the constraint %r" % (line, parts[2], parts[0])
    return None
