"""Operation-history generator and property-level oracle (C03/C04/C05/C12/C16).
Case format: see harness/domhist.hpp.  The oracle replays the history on sets of sampled
concrete stores (mathematical-integer semantics of Ir/Syntax.v) and checks every answer of
the implementation against them."""
import random, re, zlib

COEFS = [1, 1, 1, -1, -1, 2, -2, 3, -3, 7, -7, 2 ** 31, -(2 ** 62)]
CONSTS = [0, 0, 1, -1, 2, 3, 5, -5, 7, 10, -10, 100, 2 ** 31, -(2 ** 31), 2 ** 62]
ARITH = ["add", "sub", "mul", "sdiv", "udiv", "srem", "urem"]
BIT = ["and", "or", "xor", "shl", "lshr", "ashr"]


def gen_exp(rng, nv, maxterms=3, small=False):
    n = rng.choice([0, 1, 1, 1, 2, 2, 3][:2 + 2 * maxterms])
    n = min(n, nv, maxterms)
    vs = sorted(rng.sample(range(nv), n))
    terms = [(rng.choice([1, 1, -1, 2, -2, 3] if small else COEFS), v) for v in vs]
    k = rng.choice([0, 1, -1, 2, 5, -7, 10] if small else CONSTS)
    return terms, k


def fmt_exp(e):
    terms, k = e
    return "E %d %s%d" % (len(terms), "".join("%d %d " % (c, v) for c, v in terms), k)


def gen_cst(rng, nv, kinds=("eq", "ne", "le", "lt"), maxterms=3, small=False):
    e = gen_exp(rng, nv, maxterms, small)
    if not e[0] and rng.random() < 0.8:   # mostly avoid constant constraints
        e = ([(rng.choice([1, -1, 2]), rng.randrange(nv))], e[1])
    return rng.choice(kinds), e


def fmt_cst(c):
    return "C %s %s" % (c[0], fmt_exp(c[1]))


def bound_cst(rng, nv):
    v = rng.randrange(nv)
    k = rng.choice([0, 1, 2, 5, 10, -3, -10, 100])
    if rng.random() < 0.5:
        return ("le", ([(1, v)], -k))      # v <= k
    return ("le", ([(-1, v)], k if rng.random() < 0.5 else -k))   # v >= -k


def gen_history(rng, opts):
    """opts: dict(nops, kinds of ops allowed ('all' or a list), lang ('any'|'interval'|'zone'|'oct'))"""
    nregs = rng.randint(2, 4)
    nv = rng.randint(2, opts.get("maxvars", 6))
    ops = []
    allowed = opts.get("ops")
    lang = opts.get("lang", "any")
    nops = rng.randint(opts.get("minops", 5), opts.get("maxops", 40))

    def lang_cst():
        if lang == "any":
            return gen_cst(rng, nv, small=rng.random() < 0.6)
        kind = rng.choice(["le", "le", "le", "eq", "lt"] if opts.get("strict", True) else ["le", "le", "eq"])
        k = rng.choice([0, 1, -1, 2, 3, 5, -5, 10, -10, 100, -100, 2 ** 20, -(2 ** 20)])
        x = rng.randrange(nv)
        shape = rng.random()
        if lang == "interval" or shape < 0.35 or nv < 2:
            return (kind, ([(rng.choice([1, -1]), x)], k))
        y = rng.choice([v for v in range(nv) if v != x])
        a, b = min(x, y), max(x, y)
        if lang == "zone" or shape < 0.75:
            s = rng.choice([1, -1])
            return (kind, ([(s, a), (-s, b)], k))
        return (kind, ([(rng.choice([1, -1]), a), (rng.choice([1, -1]), b)], k))

    for i in range(nops):
        r = rng.randrange(nregs)
        x = rng.random()
        pick = rng.choice(allowed) if allowed else None
        if pick is None:
            pick = rng.choices(
                ["assume", "assign", "arith", "bit", "cast", "select", "forget", "project", "rename", "expand",
                 "wassign", "join", "meet", "widen", "narrow", "widenthr", "copy", "top", "bot",
                 "q_leq", "q_entails", "q_csts", "bounds", "normalize", "diseq"],
                [14, 10, 10, 5, 2, 3, 3, 2, 2, 2, 3, 7, 5, 4, 3, 2, 6, 1, 1, 4, 5, 2, 10, 1, 3])[0]
        if pick == "diseq":
            if nv < 2:
                continue
            a, b = sorted(rng.sample(range(nv), 2))
            sg = rng.choice([1, -1]); m = rng.choice([1, 1, 1, 2, 3])
            k = rng.choice([0, 0, 1, -1, 2, -2, 3, -3, 5])
            ops.append("assume %d 1 C ne E 2 %d %d %d %d %d" % (r, sg * m, a, -sg * m, b, k))
        elif pick == "bounds":
            n = rng.randint(1, 3)
            ops.append("assume %d %d %s" % (r, n, " ".join(fmt_cst(bound_cst(rng, nv)) for _ in range(n))))
        elif pick == "assume":
            n = rng.choice([1, 1, 1, 2, 2, 3, 4, 5, 6])
            ops.append("assume %d %d %s" % (r, n, " ".join(fmt_cst(lang_cst()) for _ in range(n))))
        elif pick == "assign":
            if lang == "any":
                e = gen_exp(rng, nv, small=rng.random() < 0.7)
            else:
                y = rng.randrange(nv)
                e = rng.choice([([], rng.choice([0, 1, -4, 9])), ([(1, y)], rng.choice([0, 1, -1, 3]))])
            ops.append("assign %d %d %s" % (r, rng.randrange(nv), fmt_exp(e)))
        elif pick == "wassign":
            ops.append("wassign %d %d %s" % (r, rng.randrange(nv), fmt_exp(gen_exp(rng, nv, small=True))))
        elif pick == "arith":
            op = rng.choice(ARITH + ["add", "sub", "mul", "sdiv", "sdiv", "srem"])
            z = ("v %d" % rng.randrange(nv)) if rng.random() < 0.5 else ("k %d" % rng.choice([0, 1, -1, 2, -2, 3, 7, -7, 10, 2 ** 31]))
            ops.append("arith %d %s %d %d %s" % (r, op, rng.randrange(nv), rng.randrange(nv), z))
        elif pick == "bit":
            op = rng.choice(BIT)
            if op in ("shl", "lshr", "ashr"):
                z = "k %d" % rng.choice([0, 1, 2, 3, 5, 31, 64, -1]) if rng.random() < 0.8 else "v %d" % rng.randrange(nv)
            else:
                z = ("v %d" % rng.randrange(nv)) if rng.random() < 0.5 else ("k %d" % rng.choice([0, 1, 3, 7, 255, -1, -8]))
            ops.append("bit %d %s %d %d %s" % (r, op, rng.randrange(nv), rng.randrange(nv), z))
        elif pick == "cast":
            op = rng.choice(["trunc", "sext", "zext"])
            k = rng.random()
            if k < 0.6:
                dst, src = rng.randrange(nv), rng.randrange(nv)
            elif k < 0.8:
                dst, src = rng.randrange(nv), nv + rng.randrange(2)     # bool -> int
                op = rng.choice(["sext", "zext"])
            else:
                dst, src = nv + rng.randrange(2), rng.randrange(nv)     # int -> bool
                op = "trunc"
            ops.append("cast %d %s %d %d" % (r, op, dst, src))
        elif pick == "select":
            ops.append("select %d %d %s %s %s" % (r, rng.randrange(nv), fmt_cst(gen_cst(rng, nv, small=True)),
                                                  fmt_exp(gen_exp(rng, nv, small=True)), fmt_exp(gen_exp(rng, nv, small=True))))
        elif pick in ("forget", "project"):
            n = rng.randint(1, nv)
            ops.append("%s %d %d %s" % (pick, r, n, " ".join(map(str, rng.sample(range(nv), n)))))
        elif pick == "rename":
            n = rng.randint(1, max(1, nv // 2))
            vs = rng.sample(range(nv), min(nv, 2 * n))
            n = len(vs) // 2
            if n == 0:
                continue
            # precondition of rename: the new names are unbound
            ops.append("forget %d %d %s" % (r, n, " ".join(map(str, vs[n:2 * n]))))
            ops.append("rename %d %d %s %s" % (r, n, " ".join(map(str, vs[:n])), " ".join(map(str, vs[n:2 * n]))))
        elif pick == "expand":
            a, b = rng.sample(range(nv), 2)
            ops.append("expand %d %d %d" % (r, a, b))
        elif pick in ("join", "meet", "widen", "narrow"):
            ops.append("%s %d %d %d" % (pick, r, rng.randrange(nregs), rng.randrange(nregs)))
        elif pick == "widenthr":
            n = rng.randint(0, 5)
            ops.append("widenthr %d %d %d %d %s" % (r, rng.randrange(nregs), rng.randrange(nregs), n,
                                                    " ".join(str(rng.choice([-100, -10, -1, 1, 2, 5, 10, 11, 100, 1000])) for _ in range(n))))
        elif pick == "copy":
            ops.append("copy %d %d" % (r, rng.randrange(nregs)))
        elif pick in ("top", "bot"):
            ops.append("%s %d" % (pick, r))
        elif pick == "normalize":
            ops.append("%s %d" % (rng.choice(["normalize", "minimize"]), r))
        elif pick == "q_leq":
            ops.append("q_leq %d %d" % (rng.randrange(nregs), rng.randrange(nregs)))
        elif pick == "q_entails":
            ops.append("q_entails %d %s" % (r, fmt_cst(lang_cst() if lang != "any" else gen_cst(rng, nv, small=True))))
        elif pick == "q_csts":
            ops.append("q_csts %d" % r)
    return "hist %d %d ; %s" % (nregs, nv, " ; ".join(ops))


CORPUS = [
    # solver: disequations whose division rounds (fixed defect)
    "hist 2 2 ; assume 0 2 C le E 1 -1 0 1 C le E 1 1 0 -5 ; assume 0 1 C ne E 1 2 0 -3 ; assume 0 1 C lt E 1 2 0 -3",
    # division defects (fixed)
    "hist 2 3 ; assume 0 2 C le E 1 -1 0 -7 C le E 1 1 0 5 ; assume 0 2 C le E 1 -1 1 2 C le E 1 1 1 -3 ; arith 0 sdiv 2 0 v 1",
    "hist 2 3 ; assign 0 0 E 0 10 ; assume 0 1 C le E 1 -1 1 2 ; arith 0 sdiv 2 0 v 1 ; bit 0 ashr 2 0 k 1",
    "hist 2 2 ; assign 0 0 E 0 -5 ; bit 0 ashr 1 0 k 1",
    # inclusion over different variable sets (patricia compare)
    "hist 3 2 ; assign 0 0 E 0 0 ; assign 1 1 E 0 0 ; q_leq 0 1 ; q_leq 1 0 ; q_leq 0 2 ; q_leq 2 0",
    # weak assign that reaches top
    "hist 2 2 ; assume 0 1 C le E 1 1 0 0 ; wassign 0 0 E 0 5 ; assume 1 1 C le E 1 -1 0 0 ; q_leq 0 1 ; q_leq 1 0 ; q_at 0",
]


def gen_diseq_boundary(rng, n):
    """scripted histories on the case split of disequality lowering: a two-variable disequality
    s*a - s*b + k != 0 whose excluded line touches a corner of the box of (a, b)"""
    out = []
    for _ in range(n):
        nv = rng.choice([2, 3])
        a, b = sorted(rng.sample(range(nv), 2))
        lo = rng.randint(-6, 4); hi = lo + rng.randint(1, 4)
        c = rng.randint(-4, 4)
        ops = ["assume 0 2 C le E 1 -1 %d %d C le E 1 1 %d %d" % (a, lo, a, -hi)]
        if rng.random() < 0.6:
            ops.append("assign 0 %d E 0 %d" % (b, c)); blo = bhi = c
        else:
            blo = c; bhi = c + rng.randint(0, 2)
            ops.append("assume 0 2 C le E 1 -1 %d %d C le E 1 1 %d %d" % (b, blo, b, -bhi))
        if rng.random() < 0.5:
            ops.reverse()
        sg = rng.choice([1, -1])
        corner = rng.choice([hi - blo, lo - bhi, hi - bhi, lo - blo]) + rng.choice([0, 0, 0, 1, -1])
        k = rng.choice([1, -1]) * corner          # right and wrong sign of the constant
        ops.append("assume 0 1 C ne E 2 %d %d %d %d %d" % (sg, a, -sg, b, k))
        ops.append("q_at 0")
        out.append("hist 2 %d ; %s" % (nv, " ; ".join(ops)))
    return out


def gen_widenthr(rng, n):
    """scripted: a bound that grows between the two arguments of a widening with thresholds, with a
    threshold beyond the new bound (the result must stop at the threshold), then further steps"""
    out = []
    for _ in range(n):
        nv = rng.choice([1, 2, 3]); x = rng.randrange(nv)
        lo = rng.randint(-5, 5); hi = lo + rng.randint(0, 3); d = rng.randint(1, 4)
        up = rng.random() < 0.6
        ths = sorted(set([(hi + d + rng.randint(0, 30)) if up else (lo - d - rng.randint(0, 30))] +
                         [rng.choice([-100, -10, 0, 10, 100, 1000]) for _ in range(rng.randint(0, 2))]))
        a = "assume 0 2 C le E 1 -1 %d %d C le E 1 1 %d %d" % (x, lo, x, -hi)
        b = ("assume 1 2 C le E 1 -1 %d %d C le E 1 1 %d %d" % (x, lo, x, -(hi + d))) if up else \
            ("assume 1 2 C le E 1 -1 %d %d C le E 1 1 %d %d" % (x, lo - d, x, -hi))
        ops = [a, b, "widenthr 2 0 1 %d %s" % (len(ths), " ".join(map(str, ths))), "q_at 2",
               "copy 0 2", "arith 1 %s %d %d k 1" % ("add" if up else "sub", x, x), "join 1 1 0",
               "widenthr 2 0 1 %d %s" % (len(ths), " ".join(map(str, ths))), "q_at 2", "q_leq 1 2"]
        out.append("hist 3 %d ; %s" % (nv, " ; ".join(ops)))
    return out


def gen(seed, tier, opts=None, n=None):
    rng = random.Random(seed)
    opts = dict(opts or {})
    n = n or (1500 if tier == "quick" else 40000)
    lines = list(CORPUS) if opts.get("corpus", True) else []
    for _ in range(n):
        lines.append(gen_history(rng, opts))
    return lines


# ------------------------------------------------------------------ oracle

POOL = [0, 1, -1, 2, -2, 3, 5, -5, 7, 10, -10, 11, 100, -100, 2 ** 31, -(2 ** 31), 2 ** 40]


def tdiv(x, y):
    q = abs(x) // abs(y)
    return q if (x >= 0) == (y >= 0) else -q


def trem(x, y):
    return x - y * tdiv(x, y)


class Tok:
    def __init__(self, toks):
        self.t, self.p = toks, 0

    def next(self):
        self.p += 1
        return self.t[self.p - 1]

    def nexti(self):
        return int(self.next())


def p_exp(k):
    k.next()
    n = k.nexti()
    terms = []
    for _ in range(n):
        c = k.nexti(); v = k.nexti()
        terms.append((c, v))
    return terms, k.nexti()


def p_cst(k):
    k.next()
    kind = k.next()
    return kind, p_exp(k)


def ev(e, s):
    return sum(c * s[v] for c, v in e[0]) + e[1]


def holds(c, s):
    v = ev(c[1], s)
    return {"eq": v == 0, "ne": v != 0, "le": v <= 0, "lt": v < 0}[c[0]]


def parse_itv(s):
    s = s.strip()
    if s == "_|_":
        return "bot"
    m = re.match(r"^\[(\S+), (\S+)\]$", s)
    if not m:
        return None
    l = None if m.group(1) == "-oo" else int(m.group(1))
    u = None if m.group(2) == "+oo" else int(m.group(2))
    return (l, u)


def in_itv(i, z):
    if i == "bot" or i is None:
        return False
    return (i[0] is None or i[0] <= z) and (i[1] is None or z <= i[1])


def parse_state(a):
    a = a.strip()
    if a == "_|_":
        return "bot"
    if a.startswith("T"):
        a = a[1:]
    return [parse_itv(x) for x in a.split("|")]


def parse_ans_cst(s):
    kind, terms, k = s.split(":")
    ts = []
    if terms:
        for t in terms.split("+"):
            c, v = t.split("*v")
            ts.append((int(c), int(v)))
    return kind, (ts, int(k))


MAXS = 48


def oracle_dense(line, ans, rng=None, checks=("at", "leq", "entails", "csts", "bot")):
    """same oracle with a dense sample of small stores (for short histories over few variables)"""
    return oracle(line, ans, rng, checks, dense=True)


def oracle(line, ans, rng=None, checks=("at", "leq", "entails", "csts", "bot"), dense=False):
    """replays the history on sampled concrete stores; returns a text with the failing
    step and store, or None"""
    ops = [o.split() for o in line.split(" ; ")]
    nregs, nv = int(ops[0][1]), int(ops[0][2])
    nb = int(ops[0][3]) if len(ops[0]) > 3 else 2       # boolean variables: indices nv .. nv+nb-1
    nvar = nv + nb
    if ans in ("ABORT", "MISSING") or ans.startswith("HARNESS-ERROR"):
        return None
    answers = ans.split(" ; ")
    r0 = random.Random(zlib.crc32(line.encode()))

    def rand_store():
        return tuple([r0.choice(POOL) for _ in range(nv)] + [r0.choice([0, 1]) for _ in range(nb)])

    maxs = MAXS
    top_samples = [rand_store() for _ in range(MAXS)]
    if dense:
        # dense = True: 650 small stores; dense = (count, span): that many stores with values in [-span, span]
        cnt, span = (650, 7) if dense is True else dense
        maxs = cnt + 50
        top_samples += [tuple([r0.randint(-span, span) for _ in range(nv)] + [r0.choice([0, 1]) for _ in range(nb)]) for _ in range(cnt)]
    regs = [list(top_samples) for _ in range(nregs)]
    ai = 0
    last_state = {}
    touched = set()

    def trim(l):
        l = list(dict.fromkeys(l))
        if len(l) > maxs:
            l = r0.sample(l, maxs)
        return l

    def upd(s, x, v):
        t = list(s); t[x] = v
        return tuple(t)

    for idx, o in enumerate(ops[1:], 1):
        if not o:
            continue
        if ai >= len(answers):
            return None
        a = answers[ai]; ai += 1
        k = Tok(o)
        op = k.next()
        where = "step %d (%s) of: %s" % (idx, " ".join(o), line)
        if op == "q_leq":
            s, t = k.nexti(), k.nexti()
            if "leq" in checks:
                if a == "true":
                    stt = last_state.get(t, "top")
                    for st0 in regs[s]:
                        if stt == "bot":
                            return "%s: inclusion answered true, the right operand is bottom, but store %s is described by the left operand" % (where, list(st0))
                        if stt != "top":
                            for v in range(min(nvar, len(stt))):
                                if stt[v] is not None and not in_itv(stt[v], st0[v]):
                                    return "%s: inclusion answered true but store %s of the left operand has v%d = %d outside the right operand's %s" % (where, list(st0), v, st0[v], stt[v])
                elif a == "false":
                    if s == t:
                        return "%s: inclusion of a value in itself answered false" % where
                    if last_state.get(s, "top") == "bot":
                        return "%s: inclusion with bottom on the left answered false" % where
                    if last_state.get(t, "top") == "top" and t not in touched:
                        return "%s: inclusion with top on the right answered false" % where
            continue
        if op == "q_entails":
            r = k.nexti(); c = p_cst(k)
            if a == "true" and "entails" in checks:
                for s in regs[r]:
                    if not holds(c, s):
                        return "%s: entails answered true but store %s (reachable by the same concrete operations) violates it" % (where, list(s))
            continue
        if op == "q_csts":
            r = k.nexti()
            if "csts" in checks and a.startswith("{"):
                body = a[1:-1]
                cs = [parse_ans_cst(x) for x in body.split(",")] if body else []
                for c in cs:
                    for s in regs[r]:
                        if not holds(c, s):
                            return "%s: exported constraint %s is violated by reachable store %s" % (where, c, list(s))
            continue
        if op == "q_bat":
            r = k.nexti(); b = nv + k.nexti()
            if "at" in checks or "bat" in checks:
                for s in regs[r]:
                    bad = ((a == "bottom") or (a == "true" and s[b] != 1) or (a == "false" and s[b] != 0) or
                           (a.startswith("itv:") and not in_itv(parse_itv(a[4:]), s[b])))
                    if a == "bottom" and "bot" not in checks:
                        bad = False
                    if bad:
                        return "%s: at(v%d) = %s is reported for the boolean b%d but reachable store %s has b%d = %d" % (where, b, a, b - nv, list(s), b - nv, s[b])
            continue
        if op == "leqprobe":
            # r := t ; assume_bool(r, b, neg).  Answer: "<s <= t> # <state of r> # <constraints of r>".
            # If s <= t was answered true, the stores of s that pass the same assume_bool are
            # states of t, hence must be inside what r reports.
            r = k.nexti(); s1 = k.nexti(); t1 = k.nexti(); b = nv + k.nexti(); neg = k.nexti()
            parts = [x.strip() for x in a.split(" # ")]
            keepv = 0 if neg else 1
            St = [s for s in regs[t1] if s[b] == keepv]
            Ss = [s for s in regs[s1] if s[b] == keepv]
            regs[r] = trim(St)
            if len(parts) != 3:
                continue
            st = parse_state(parts[1])
            last_state[r] = st
            touched.add(r)
            cs = []
            if parts[2].startswith("{") and parts[2][1:-1]:
                cs = [parse_ans_cst(x) for x in parts[2][1:-1].split(",") if "v?" not in x]
            groups = [(regs[r], False)]
            if parts[0] == "true" and "leq" in checks and s1 != t1:
                groups.append((Ss, True))
            for (grp, isleq) in groups:
                what = ("inclusion answered true, so store %%s of the left operand is a state of the right operand; after assume_bool(b%d, negated=%d) on the right operand" % (b - nv, neg)) if isleq else "after assume_bool on a copy, reachable store %s:"
                for s in grp:
                    if st == "bot":
                        if "bot" in checks or isleq:
                            return "%s: %s the value is bottom" % (where, what % list(s))
                        break
                    if "at" in checks or isleq:
                        for v in range(min(nvar, len(st))):
                            if st[v] is not None and not in_itv(st[v], s[v]):
                                return "%s: %s at(v%d) = %s excludes it" % (where, what % list(s), v, st[v])
                    if "csts" in checks or isleq:
                        for c in cs:
                            if not holds(c, s):
                                return "%s: %s exported constraint %s excludes it" % (where, what % list(s), c)
            continue
        if op == "q_at":
            r = k.nexti()
        else:
            r = k.nexti()
            S = regs[r]
            if op == "top":
                S = list(top_samples)
            elif op == "bot":
                S = []
            elif op == "copy":
                S = list(regs[k.nexti()])
            elif op == "assign":
                x = k.nexti(); e = p_exp(k)
                S = [upd(s, x, ev(e, s)) for s in S]
            elif op == "wassign":
                x = k.nexti(); e = p_exp(k)
                S = S + [upd(s, x, ev(e, s)) for s in S]
            elif op in ("arith", "bit"):
                f = k.next(); x = k.nexti(); y = k.nexti(); kind = k.next(); zz = k.nexti()
                T = []
                for s in S:
                    a1 = s[y]; b1 = s[zz] if kind == "v" else zz
                    v = None
                    if f == "add": v = a1 + b1
                    elif f == "sub": v = a1 - b1
                    elif f == "mul": v = a1 * b1 if (a1.bit_length() + b1.bit_length() <= 4096) else None   # else: sample dropped
                    elif f == "sdiv": v = tdiv(a1, b1) if b1 != 0 else None
                    elif f == "srem": v = trem(a1, b1) if b1 != 0 else None
                    elif f == "udiv": v = a1 // b1 if (a1 >= 0 and b1 > 0) else None
                    elif f == "urem": v = a1 % b1 if (a1 >= 0 and b1 > 0) else None
                    elif f == "and": v = a1 & b1
                    elif f == "or": v = a1 | b1
                    elif f == "xor": v = a1 ^ b1
                    elif f == "shl": v = a1 << b1 if 0 <= b1 <= 200 else None
                    elif f == "ashr": v = a1 >> b1 if 0 <= b1 <= 10 ** 5 else None
                    elif f == "lshr": v = a1 >> b1 if (0 <= b1 <= 10 ** 5 and a1 >= 0) else None
                    if v is not None:
                        T.append(upd(s, x, v))
                S = T
            elif op == "cast":
                f = k.next(); dst = k.nexti(); src = k.nexti()
                T = []
                for s in S:
                    if dst >= nv:          # int -> bool: any boolean value
                        T.append(upd(s, dst, 0)); T.append(upd(s, dst, 1))
                    elif f == "zext" and src < nv and not (0 <= s[src] < 2 ** 32):
                        continue           # outside the value-preserving fragment
                    else:
                        T.append(upd(s, dst, s[src]))
                S = T
            elif op == "assume":
                n = k.nexti(); cs = [p_cst(k) for _ in range(n)]
                S = [s for s in S if all(holds(c, s) for c in cs)]
            elif op == "select":
                l = k.nexti(); c = p_cst(k); e1 = p_exp(k); e2 = p_exp(k)
                S = [upd(s, l, ev(e1, s) if holds(c, s) else ev(e2, s)) for s in S]
            elif op == "forget":
                n = k.nexti(); vs = [k.nexti() for _ in range(n)]
                T = []
                for s in S:
                    for _ in range(2):
                        t = s
                        for v in vs:
                            t = upd(t, v, r0.choice(POOL) if v < nv else r0.choice([0, 1]))
                        T.append(t)
                S = T
            elif op in ("bassign", "bwassign"):
                b = nv + k.nexti(); c = p_cst(k)
                T = [upd(s, b, 1 if holds(c, s) else 0) for s in S]
                S = T if op == "bassign" else S + T
            elif op in ("bcopy", "bwcopy"):
                b = nv + k.nexti(); b1 = nv + k.nexti(); neg = k.nexti()
                T = [upd(s, b, (1 - s[b1]) if neg else s[b1]) for s in S]
                S = T if op == "bcopy" else S + T
            elif op == "bbin":
                f = k.next(); b = nv + k.nexti(); b1 = nv + k.nexti(); b2 = nv + k.nexti()
                fn = {"and": lambda x, y: x & y, "or": lambda x, y: x | y, "xor": lambda x, y: x ^ y}[f]
                S = [upd(s, b, fn(s[b1], s[b2])) for s in S]
            elif op == "bassume":
                b = nv + k.nexti(); neg = k.nexti()
                S = [s for s in S if s[b] == (0 if neg else 1)]
            elif op == "bselect":
                b = nv + k.nexti(); bc = nv + k.nexti(); b1 = nv + k.nexti(); b2 = nv + k.nexti()
                S = [upd(s, b, s[b1] if s[bc] else s[b2]) for s in S]
            elif op in ("bforget", "havoc"):
                x = k.nexti()
                if op == "bforget":
                    x += nv
                T = []
                for s in S:
                    if x >= nv:
                        T.append(upd(s, x, 0)); T.append(upd(s, x, 1))
                    else:
                        T.append(upd(s, x, r0.choice(POOL))); T.append(upd(s, x, r0.randint(-7, 7)))
                S = T
            elif op == "bfromint":
                b = nv + k.nexti(); v = k.nexti()
                S = [upd(s, b, s[v]) for s in S if s[v] in (0, 1)]
            elif op == "project":
                n = k.nexti(); vs = set(k.nexti() for _ in range(n))
                T = []
                for s in S:
                    for _ in range(2):
                        t = s
                        for v in range(nvar):
                            if v not in vs:
                                t = upd(t, v, r0.choice(POOL) if v < nv else r0.choice([0, 1]))
                        T.append(t)
                S = T
            elif op == "rename":
                n = k.nexti(); fr = [k.nexti() for _ in range(n)]; to = [k.nexti() for _ in range(n)]
                stt = last_state.get(r, "top")
                if stt not in ("top", "bot") and any(stt[v] != (None, None) for v in to if v < len(stt)):
                    S = []      # outside the precondition of rename (a new name is bound): nothing to check
                T = []
                for s in S:
                    t = s
                    for f1, t1 in zip(fr, to):
                        if f1 != t1:
                            t = upd(t, t1, t[f1]); t = upd(t, f1, r0.choice(POOL))
                    T.append(t)
                S = T
            elif op == "expand":
                x = k.nexti(); nx = k.nexti()
                S = [upd(s, nx, s[x]) for s in S]
            elif op in ("join", "widen", "widenthr"):
                s1, t1 = k.nexti(), k.nexti()
                S = regs[s1] + regs[t1]
            elif op in ("meet", "narrow"):
                s1, t1 = k.nexti(), k.nexti()
                st = set(regs[t1])
                S = [s for s in regs[s1] if s in st]
            elif op in ("normalize", "minimize"):
                pass
            regs[r] = trim(S)
        # check the printed state of register r
        st = parse_state(a)
        last_state[r] = st
        touched.add(r)
        if st == "bot":
            if regs[r] and "bot" in checks:
                return "%s: the value is bottom but store %s is reachable by the same concrete operations" % (where, list(regs[r][0]))
            continue
        if "at" in checks:
            for s in regs[r]:
                for v in range(min(nvar, len(st))):
                    if st[v] is not None and not in_itv(st[v], s[v]):
                        return "%s: at(v%d) = %s but reachable store %s has v%d = %d" % (where, v, st[v], list(s), v, s[v])
    return None


def nontrivial(line, ans):
    """rule: the history ends in a register state that is neither bottom nor top in at
    least one printed step and has at least 3 distinct printed states"""
    parts = set(ans.split(" ; "))
    good = [p for p in parts if p not in ("_|_", "true", "false") and not p.startswith("T") and "[" in p]
    return len(good) >= 3
