"""Region-program generator and property-level oracle for C15 (region / reference domain).

Case format: see harness/regions.cpp.  A case is an operation history over a few registers
holding region_domain values; variables are i<k> (integers), b<k> (booleans), p<k>
(references), R<k> (regions of integers), Q<k> (regions of references), U<k> (unknown
regions).

The oracle is an independent concrete heap semantics (python ints):
  * a region is a finite map address -> (value, tags); distinct regions are disjoint maps;
  * make_ref allocates a fresh object (base address 1000*id, never null) tagged with its
    allocation site and adds its base address to the region; gep stays inside the object and
    adds the new address to the target region; references are plain addresses (0 = null);
  * a load/store/add_tag through a reference that is null, freed, or was not created for the
    named region by the analysed code is undefined behaviour: that execution stops (the
    sample is dropped) -- this is the hypothesis "regions are allocated inside the analysed
    code" under which the count-zero strong update of the C++ is meant to be used;
  * a load from a cell never written is outside the property (sample dropped);
  * values carry tag sets (taint): add_tag adds a tag to the data of a written cell, loads /
    stores / assignments propagate them.
Every register holds a small set of sampled concrete states; every printed abstract state is
checked against all of them: integers inside at(), definite null / non-null answers,
allocation-site sets, tag sets, and "bottom although a concrete execution reaches here".
"""
import random, re, zlib

PARAMS = ["%d%d%d%d%d" % (a, b, c, d, e) for a in (0, 1) for b in (0, 1) for c in (0, 1) for d in (0, 1) for e in (0, 1)]
POOL = [0, 0, 1, -1, 2, 3, 5, -5, 7, 10, -10, 100, 1000, 2 ** 31, -(2 ** 31)]
SMALL = [0, 1, 2, 3, 4, 5, 7, 8, -1, -3, 10, 12]
WILD0 = 7 * 10 ** 8
OBJ = 1000


# ---------------------------------------------------------------------------------- format

def fmt_exp(terms, k):
    return "E %d %s%d" % (len(terms), "".join("%d %s " % (c, v) for c, v in terms), k)


def fmt_cst(kind, terms, k):
    return "C %s %s" % (kind, fmt_exp(terms, k))


class Tok:
    def __init__(self, t):
        self.t = t; self.p = 0

    def next(self):
        x = self.t[self.p]; self.p += 1
        return x

    def nexti(self):
        return int(self.next())

    def more(self):
        return self.p < len(self.t)


def p_exp(k):
    k.next()
    n = k.nexti()
    terms = []
    for _ in range(n):
        c = k.nexti(); v = k.next()
        terms.append((c, v))
    return terms, k.nexti()


def p_cst(k):
    k.next()
    kind = k.next()
    return kind, p_exp(k)


def p_rcst(k):
    ar = k.next(); rel = k.next()
    if ar == "u":
        return ("u", rel, k.next())
    p = k.next(); q = k.next(); off = k.nexti()
    return ("b", rel, p, q, off)


# --------------------------------------------------------------------------- concrete state

class St:
    __slots__ = ("v", "tg", "created", "cells", "freed")

    def __init__(self):
        self.v = {}          # variable -> int (ints, bools, reference addresses)
        self.tg = {}         # variable -> frozenset of tags carried by its value
        self.created = {}    # region -> frozenset of addresses created for it
        self.cells = {}      # (region, addr) -> (value, tags)
        self.freed = frozenset()

    def copy(self):
        s = St()
        s.v = dict(self.v); s.tg = dict(self.tg); s.created = dict(self.created)
        s.cells = dict(self.cells); s.freed = self.freed
        return s

    def key(self):
        return (tuple(sorted(self.v.items())), tuple(sorted((k, tuple(sorted(t))) for k, t in self.tg.items())),
                tuple(sorted((k, tuple(sorted(a))) for k, a in self.created.items())),
                tuple(sorted((k, (v, tuple(sorted(t)))) for k, (v, t) in self.cells.items())),
                tuple(sorted(self.freed)))


class World:
    """per-oracle-run facts shared by all samples: allocation sites of objects"""
    def __init__(self):
        self.site = {}
        self.size = {}
        self.next_obj = 1
        self.next_wild = 0

    def fresh(self, site, size=None):
        o = self.next_obj; self.next_obj += 1
        self.site[o] = site
        self.size[o] = size
        return o * OBJ

    def wild(self):
        self.next_wild += 1
        return WILD0 + self.next_wild * OBJ + 1

    def obj(self, a):
        o = a // OBJ
        return o if o in self.site else None


def ev_exp(e, s):
    terms, k = e
    return sum(c * s.v[x] for c, x in terms) + k


def holds(c, s):
    kind, e = c
    v = ev_exp(e, s)
    return v == 0 if kind == "eq" else v != 0 if kind == "ne" else v <= 0 if kind == "le" else v < 0


def rel_holds(rel, a, b):
    return {"eq": a == b, "ne": a != b, "lt": a < b, "le": a <= b, "gt": a > b, "ge": a >= b}[rel]


def rcst_holds(c, s):
    if c[0] == "u":
        return rel_holds(c[1], s.v[c[2]], 0)
    return rel_holds(c[1], s.v[c[2]], s.v[c[3]] + c[4])


def tdiv(a, b):
    q = abs(a) // abs(b)
    return q if (a >= 0) == (b >= 0) else -q


def trem(a, b):
    return a - b * tdiv(a, b)


def valid(w, s, a, g):
    """address a may be dereferenced as a cell of region g"""
    if a == 0 or a not in s.created.get(g, ()):
        return False
    o = w.obj(a)
    return o is not None and o not in s.freed


def region_kind(g):
    return g[0]


def in_bounds(w, s, a, sz):
    """[a, a + sz) lies inside the memory object a points into (sz = c:<n> | v:<int var>)"""
    o = w.obj(a) if a != 0 else None
    if o is None or w.size.get(o) is None:
        return False
    n = int(sz[2:]) if sz[0] == "c" else s.v[sz[2:]]
    return (a - o * OBJ) + n <= w.size[o]


class Ctx:
    def __init__(self, hdr):
        self.params = hdr[1]
        self.nregs = int(hdr[2])
        ni, nb, np_, nR, nQ, nU = [int(x) for x in hdr[3:9]]
        self.I = ["i%d" % k for k in range(ni)]
        self.B = ["b%d" % k for k in range(nb)]
        self.P = ["p%d" % k for k in range(np_)]
        self.G = ["R%d" % k for k in range(nR)] + ["Q%d" % k for k in range(nQ)] + ["U%d" % k for k in range(nU)]
        self.alloc = self.params[0] == "1"
        self.tags = self.params[2] == "1"
        self.skip_unknown = self.params[4] == "1"


def step(cx, w, r0, s, op, k):
    """concrete successors of state s under one operation (list; [] = the execution stops)"""
    s = s.copy()
    if op == "init":
        g = k.next()
        s.created[g] = frozenset()
        for key in [c for c in s.cells if c[0] == g]:
            del s.cells[key]
        return [s]
    if op == "mk":
        p = k.next(); g = k.next(); site = k.nexti(); sz = k.next()
        a = w.fresh(site, int(sz[2:]) if sz[0] == "c" else s.v[sz[2:]])
        s.v[p] = a; s.tg[p] = frozenset()
        s.created[g] = s.created.get(g, frozenset()) | {a}
        return [s]
    if op == "free":
        g = k.next(); p = k.next()
        a = s.v[p]
        if a == 0:
            return [s]
        if not valid(w, s, a, g):
            return []
        s.freed = s.freed | {w.obj(a)}
        return [s]
    if op == "ld":
        x = k.next(); p = k.next(); g = k.next()
        a = s.v[p]
        if not valid(w, s, a, g) or (g, a) not in s.cells:
            return []
        val, tg = s.cells[(g, a)]
        if g[0] == "U" and (x[0] == "p") != (isinstance(val, tuple)):
            return []
        if isinstance(val, tuple):
            val = val[0]
        s.v[x] = val; s.tg[x] = tg
        return [s]
    if op == "st":
        p = k.next(); g = k.next(); val = k.next()
        a = s.v[p]
        if not valid(w, s, a, g):
            return []
        if val == "null":
            c = ((0,), frozenset()) if g[0] == "U" else (0, frozenset())
        elif val[0] == "c":
            c = (int(val[2:]), frozenset())
        else:
            x = val[2:]
            c = (((s.v[x],) if (g[0] == "U" and x[0] == "p") else s.v[x]), s.tg.get(x, frozenset()))
        s.cells[(g, a)] = c
        return [s]
    if op == "gep":
        p2 = k.next(); g2 = k.next(); p1 = k.next(); g1 = k.next(); e = p_exp(k)
        a = s.v[p1]; off = ev_exp(e, s)
        if a == 0:
            if off != 0:
                return []
            s.v[p2] = 0; s.tg[p2] = s.tg.get(p1, frozenset())
            return [s]
        o = w.obj(a)
        if o is None:                         # wild pointer arithmetic: stays wild
            if abs(off) > 400:
                return []
            s.v[p2] = a + off; s.tg[p2] = s.tg.get(p1, frozenset())
            return [s]
        if a not in s.created.get(g1, ()) or o in s.freed:
            return []
        a2 = a + off
        if a2 // OBJ != o:
            return []
        s.v[p2] = a2; s.tg[p2] = s.tg.get(p1, frozenset())
        s.created[g2] = s.created.get(g2, frozenset()) | {a2}
        return [s]
    if op in ("rcopy", "rcast"):
        if op == "rcopy":
            l = k.next(); r = k.next()
        else:
            r = k.next(); l = k.next()
        s.created[l] = s.created.get(r, frozenset())
        for key in [c for c in s.cells if c[0] == l]:
            del s.cells[key]
        for (g, a), c in list(s.cells.items()):
            if g == r:
                s.cells[(l, a)] = c
        return [s]
    if op in ("assume_ref", "assume_nref"):
        c = p_rcst(k)
        h = rcst_holds(c, s)
        return [s] if h == (op == "assume_ref") else []
    if op == "nonnull":
        return [s] if s.v[k.next()] != 0 else []
    if op == "selref":
        p = k.next(); g = k.next(); b = k.next()
        a1 = k.next(); g1 = k.next(); a2 = k.next(); g2 = k.next()
        src, sg = (a1, g1) if s.v[b] != 0 else (a2, g2)
        if src == "null":
            s.v[p] = 0; s.tg[p] = frozenset()
            return [s]
        a = s.v[src]
        if a != 0 and w.obj(a) is not None:
            if a not in s.created.get(sg, ()) or w.obj(a) in s.freed:
                return []
            s.created[g] = s.created.get(g, frozenset()) | {a}
        s.v[p] = a; s.tg[p] = s.tg.get(src, frozenset())
        return [s]
    if op == "r2i":
        g = k.next(); p = k.next(); x = k.next()
        s.v[x] = s.v[p]; s.tg[x] = s.tg.get(p, frozenset())
        return [s]
    if op == "i2r":
        x = k.next(); g = k.next(); p = k.next()
        a = s.v[x]
        if a < 0:
            return []                        # addresses are unsigned: not a valid conversion
        s.v[p] = a; s.tg[p] = s.tg.get(x, frozenset())
        o = w.obj(a) if a > 0 else None
        if o is not None and o not in s.freed:
            s.created[g] = s.created.get(g, frozenset()) | {a}
        return [s]
    if op == "tag":
        g = k.next(); p = k.next(); t = k.nexti()
        a = s.v[p]
        if not valid(w, s, a, g):
            return []
        if (g, a) in s.cells:
            val, tg = s.cells[(g, a)]
            s.cells[(g, a)] = (val, tg | {t})
        return [s]
    if op == "isderef":
        b = k.next(); g = k.next(); p = k.next(); sz = k.next()
        s.v[b] = 1 if in_bounds(w, s, s.v[p], sz) else 0
        s.tg[b] = frozenset()
        return [s]
    if op == "nothastag":
        b = k.next(); g = k.next(); p = k.next(); t = k.nexti()
        a = s.v[p]
        if not valid(w, s, a, g) or (g, a) not in s.cells:
            return []
        s.v[b] = 0 if t in s.cells[(g, a)][1] else 1
        s.tg[b] = frozenset()
        return [s]
    if op == "assign":
        x = k.next(); e = p_exp(k)
        s.v[x] = ev_exp(e, s)
        s.tg[x] = frozenset().union(*[s.tg.get(v, frozenset()) for _, v in e[0]]) if e[0] else frozenset()
        return [s]
    if op == "arith":
        f = k.next(); x = k.next(); y = k.next(); kind = k.next(); z = k.next()
        a = s.v[y]; b = s.v[z] if kind == "v" else int(z)
        if f == "add": v = a + b
        elif f == "sub": v = a - b
        elif f == "mul":
            if a.bit_length() + b.bit_length() > 4096: return []      # sample dropped
            v = a * b
        elif f == "sdiv":
            if b == 0: return []
            v = tdiv(a, b)
        elif f == "srem":
            if b == 0: return []
            v = trem(a, b)
        else:
            return []
        s.v[x] = v
        s.tg[x] = s.tg.get(y, frozenset()) | (s.tg.get(z, frozenset()) if kind == "v" else frozenset())
        return [s]
    if op == "assume":
        n = k.nexti()
        cs = [p_cst(k) for _ in range(n)]
        return [s] if all(holds(c, s) for c in cs) else []
    if op == "select":
        l = k.next(); c = p_cst(k); e1 = p_exp(k); e2 = p_exp(k)
        e = e1 if holds(c, s) else e2
        s.v[l] = ev_exp(e, s)
        s.tg[l] = frozenset().union(*[s.tg.get(v, frozenset()) for _, v in e[0]]) if e[0] else frozenset()
        return [s]
    if op == "bassign":
        b = k.next(); c = p_cst(k)
        s.v[b] = 1 if holds(c, s) else 0
        s.tg[b] = frozenset().union(*[s.tg.get(v, frozenset()) for _, v in c[1][0]]) if c[1][0] else frozenset()
        return [s]
    if op == "bassign_ref":
        b = k.next(); c = p_rcst(k)
        s.v[b] = 1 if rcst_holds(c, s) else 0
        s.tg[b] = frozenset()
        return [s]
    if op == "bassume":
        b = k.next(); neg = k.nexti()
        return [s] if (s.v[b] != 0) != (neg != 0) else []
    if op in ("havoc", "forget", "project"):
        if op == "havoc":
            vs = [k.next()]
        else:
            n = k.nexti(); vs = [k.next() for _ in range(n)]
            if op == "project":
                keep = set(vs)
                vs = [v for v in cx.I + cx.B + cx.P + cx.G if v not in keep]
        out = []
        for _ in range(2):
            t = s.copy()
            for v in vs:
                havoc_var(cx, w, r0, t, v)
            out.append(t)
        return out
    raise ValueError("oracle: unknown op " + op)


def havoc_var(cx, w, r0, t, v):
    if v[0] == "i":
        t.v[v] = r0.choice(POOL); t.tg[v] = frozenset()
    elif v[0] == "b":
        t.v[v] = r0.choice([0, 1]); t.tg[v] = frozenset()
    elif v[0] == "p":
        cands = [0, w.wild()]
        for g, aa in t.created.items():
            cands.extend(sorted(aa))
        t.v[v] = r0.choice(cands); t.tg[v] = frozenset()
    else:                                   # a region: its contents become unknown
        for key in [c for c in t.cells if c[0] == v]:
            del t.cells[key]


# ------------------------------------------------------------------------------ answers

def parse_itv(x):
    x = x.strip()
    if x in ("_|_", "BOT"):
        return "bot"
    m = re.match(r"^\[(\S+), (\S+)\]$", x)
    if not m:
        return None
    lo = None if m.group(1) == "-oo" else int(m.group(1))
    hi = None if m.group(2) == "+oo" else int(m.group(2))
    return (lo, hi)


def in_itv(i, z):
    if i is None:
        return True
    if i == "bot":
        return False
    return (i[0] is None or i[0] <= z) and (i[1] is None or z <= i[1])


def parse_set(x):
    if x == "?":
        return None
    x = x.strip("{}")
    return set(int(t) for t in x.split(",")) if x else set()


def parse_state(a, cx):
    """-> 'bot' or dict"""
    a = a.strip()
    if a == "_|_":
        return "bot"
    if a.startswith("T "):
        a = a[2:]
    a = a.replace("_|_", "BOT")
    m = re.match(r"^I:(.*) B:(.*) P:(.*) G:(.*)$", a)
    if not m:
        return None
    st = {"I": {}, "B": {}, "P": {}, "G": {}}
    for names, txt, key in ((cx.I, m.group(1), "I"), (cx.B, m.group(2), "B")):
        parts = txt.split("|") if txt else []
        for n, x in zip(names, parts):
            st[key][n] = parse_itv(x)
    parts = m.group(3).split("|") if m.group(3) else []
    st["PO"] = {}
    for n, x in zip(cx.P, parts):
        f = x.split(";")
        st["P"][n] = (parse_itv(f[0]), f[1], parse_set(f[2]))
        if len(f) >= 5 and f[3].startswith("o") and f[4].startswith("s"):
            st["PO"][n] = (parse_itv(f[3][1:]), parse_itv(f[4][1:]))
    parts = m.group(4).split("|") if m.group(4) else []
    for n, x in zip(cx.G, parts):
        f = x.split(";")
        st["G"][n] = (parse_itv(f[0]), f[1], parse_set(f[2]), parse_set(f[3]))
    return st


MAXS = 20
STATEFUL_QUERIES = ("q_state",)


def top_samples(cx, w, r0, n):
    out = []
    for _ in range(n):
        s = St()
        for x in cx.I:
            s.v[x] = r0.choice(POOL)
        for b in cx.B:
            s.v[b] = r0.choice([0, 1])
        for p in cx.P:
            s.v[p] = r0.choice([0, w.wild()])
        out.append(s)
    return out


def check_state(cx, w, st, samples, where, line):
    if st is None:
        return None
    if st == "bot":
        if samples:
            return "%s: BOTTOM the abstract value is bottom but a concrete execution of the same operations reaches this point (e.g. with %s)" % (where, brief(samples[0]))
        return None
    for s in samples:
        for x in cx.I + cx.B:
            i = st["I" if x[0] == "i" else "B"].get(x)
            if not in_itv(i, s.v[x]):
                return "%s: VALUE at(%s) = %s but a concrete execution has %s = %d (%s)" % (where, x, fmt_itv(i), x, s.v[x], brief(s))
        for p in cx.P:
            if p not in st["P"]:
                continue
            itv, nl, sites = st["P"][p]
            a = s.v[p]
            if nl == "nt" and a != 0:
                return "%s: NULL is_null_ref(%s) answered 'definitely null' but a concrete execution has a non-null %s (%s)" % (where, p, p, brief(s))
            if nl == "nf" and a == 0:
                return "%s: NONNULL is_null_ref(%s) answered 'definitely not null' but a concrete execution has %s = null (%s)" % (where, p, p, brief(s))
            if nl == "nb":
                return "%s: BOTTOM is_null_ref(%s) answered bottom on a reachable state" % (where, p)
            if sites is not None and a != 0:
                o = w.obj(a)
                if o is not None and w.site[o] not in sites:
                    return "%s: SITES get_allocation_sites(%s) = %s but a concrete execution has %s allocated at site %d (%s)" % (where, p, sorted(sites), p, w.site[o], brief(s))
            if p in st.get("PO", {}) and a != 0 and w.obj(a) is not None and w.size.get(w.obj(a)) is not None:
                o = w.obj(a)
                oi, si = st["PO"][p]
                if not in_itv(oi, a - o * OBJ):
                    return "%s: OFFSET the offset ghost variable of %s is %s but a concrete execution has %s at offset %d of its memory object (%s)" % (where, p, fmt_itv(oi), p, a - o * OBJ, brief(s))
                if not in_itv(si, w.size[o]):
                    return "%s: SIZE the size ghost variable of %s is %s but a concrete execution has %s in a memory object of size %d (%s)" % (where, p, fmt_itv(si), p, w.size[o], brief(s))
        for g in cx.G:
            if g not in st["G"]:
                continue
            itv, cnt, rsites, tags = st["G"][g]
            if tags is not None:
                for p in cx.P:
                    a = s.v[p]
                    if valid(w, s, a, g) and (g, a) in s.cells:
                        extra = s.cells[(g, a)][1] - tags
                        if extra:
                            return "%s: TAGS get_tags(%s,%s) = %s but the data %s points to in %s carries tag %d (%s)" % (where, g, p, sorted(tags), p, g, sorted(extra)[0], brief(s))
    return None


def fmt_itv(i):
    if i is None:
        return "top"
    if i == "bot":
        return "_|_"
    return "[%s, %s]" % ("-oo" if i[0] is None else i[0], "+oo" if i[1] is None else i[1])


def brief(s):
    vs = " ".join("%s=%d" % (k, v) for k, v in sorted(s.v.items()))
    cs = " ".join("%s[%d]=%s" % (g, a, (c[0] if not isinstance(c[0], tuple) else c[0][0])) for (g, a), c in sorted(s.cells.items()))
    return "store: %s; heap: %s" % (vs, cs)


def oracle(line, ans, rng=None, want=None):
    """replays the history on sampled concrete heaps; returns a text describing the failing
    step and a concrete execution, or None"""
    if ans in ("ABORT", "MISSING") or ans.startswith("HARNESS-ERROR"):
        return None
    ops = [o.split() for o in line.split(" ; ")]
    cx = Ctx(ops[0])
    answers = ans.split(" ; ")
    r0 = random.Random(zlib.crc32(line.encode()))
    w = World()
    tops = top_samples(cx, w, r0, 10)
    regs = [[t.copy() for t in tops] for _ in range(cx.nregs)]
    ai = 0
    last_ans = {}        # register -> last printed state

    def trim(l):
        seen = {}
        for s in l:
            seen.setdefault(s.key(), s)
        l = list(seen.values())
        if len(l) > MAXS:
            l = r0.sample(l, MAXS)
        return l

    for idx, o in enumerate(ops[1:], 1):
        if not o:
            continue
        if ai >= len(answers):
            return None
        a = answers[ai]; ai += 1
        k = Tok(o)
        op = k.next()
        r = k.nexti()
        where = "step %d (%s)" % (idx, " ".join(o))
        if op in ("q_leq", "q_entails", "q_csts", "q_deref"):
            if op == "q_deref" and a == "true":
                p = k.next(); sz = k.next()
                for s in regs[r]:
                    x = s.v[p]
                    if x != 0 and w.obj(x) is not None and w.size.get(w.obj(x)) is not None and not in_bounds(w, s, x, sz):
                        return "%s: DEREF is_dereferenceable answered true but a concrete execution has %s at offset %d of a memory object of size %d (%s) in: %s" % (
                            where, p, x - w.obj(x) * OBJ, w.size[w.obj(x)], brief(s), line)
            if op == "q_entails" and a == "true":
                c = p_cst(k)
                for s in regs[r]:
                    if not holds(c, s):
                        return "%s: ENTAILS answered true but a concrete execution violates the constraint (%s)" % (where, brief(s))
            continue
        if op == "q_state":
            S = regs[r]
        elif op == "top":
            S = [t.copy() for t in top_samples(cx, w, r0, 10)]
        elif op == "bot":
            S = []
        elif op == "copy":
            S = [t.copy() for t in regs[k.nexti()]]
        elif op in ("join", "joinip", "widen", "widenthr"):
            s1, t1 = k.nexti(), k.nexti()
            S = [t.copy() for t in regs[s1] + regs[t1]]
        elif op in ("meet", "narrow"):
            s1, t1 = k.nexti(), k.nexti()
            keys = set(t.key() for t in regs[t1])
            S = [t.copy() for t in regs[s1] if t.key() in keys]
            # The domain counts the references of each region, which is history, not store: the same
            # store can be reached with different counts (select_ref / gep into another region create
            # no address).  A meet of two values whose counters differ is only meaningful between
            # states of the same program point, so no demand is made in that case.
            def counts(txt):
                g = txt.split(" G:", 1)
                return [f.split(";")[1].split(",")[0] if ";" in f else f for f in g[1].split("|")] if len(g) == 2 else None
            c1, c2 = counts(last_ans.get(s1, "")), counts(last_ans.get(t1, ""))
            if c1 is None or c2 is None or c1 != c2:
                S = []
        elif op == "rename":
            return None
        else:
            S = []
            for s in regs[r]:
                S.extend(step(cx, w, r0, s, op, Tok(o[2:])))
        regs[r] = trim(S)
        last_ans[r] = a
        st = parse_state(a, cx)
        wit = check_state(cx, w, st, regs[r], where, line)
        if wit:
            return wit + " in: " + line
    return None


def kind_of(w):
    m = re.search(r": (BOTTOM|VALUE|NULL|NONNULL|SITES|TAGS|ENTAILS|CRASH|OFFSET|SIZE|DEREF) ", w)
    return m.group(1) if m else "?"


def nontrivial(line, ans):
    """rule: some load produced a bounded interval for an integer variable, or a definite
    null/non-null answer or an allocation-site / tag set was printed, and the history ends
    in a register that is not bottom"""
    if ans in ("ABORT", "MISSING"):
        return False
    parts = ans.split(" ; ")
    if not parts or parts[-1] == "_|_":
        return False
    return (" ld " in line and bool(re.search(r"I:[^ ]*\[-?\d+, -?\d+\]", ans))) or ";nt;" in ans or ";nf;" in ans


# -------------------------------------------------------------------------------- generator

MODEL_OPS = ["init", "mk", "free", "ld", "st", "gep", "rcopy", "assume_ref", "selref", "tag", "assign", "arith",
             "assume", "havoc", "join", "meet", "widen", "narrow", "copy", "joinip"]


class GenReg:
    """what the generator believes about one register (only used to bias towards valid programs)"""
    def __init__(self):
        self.pt = {}        # ref -> region it was created for (or None)
        self.inited = set()
        self.written = {}   # region -> refs stored through

    def copy(self):
        g = GenReg()
        g.pt = dict(self.pt); g.inited = set(self.inited)
        g.written = {k: set(v) for k, v in self.written.items()}
        return g


def gen_case(rng, profile="model", params=None, opts=None):
    opts = opts or {}
    params = params or rng.choice(PARAMS)
    full = profile == "full"
    m2 = profile == "model2"          # the fragment of Dom/RegionCore2.v
    nregs = rng.randint(2, 3)
    ni = rng.randint(2, 3); nb = 1 if not full else rng.randint(1, 2)
    np_ = rng.randint(2, 5); nR = rng.randint(1, 3); nQ = rng.randint(0, 2)
    if opts.get("shape"):
        nregs, ni, nb, np_, nR, nQ = opts["shape"][:6]
    nU = rng.choice([0, 1, 1, 2]) if (full or m2) else 0
    if opts.get("nU") is not None:
        nU = opts["nU"]
    I = ["i%d" % k for k in range(ni)]; B = ["b%d" % k for k in range(nb)]
    P = ["p%d" % k for k in range(np_)]
    R = ["R%d" % k for k in range(nR)]; Q = ["Q%d" % k for k in range(nQ)]; U = ["U%d" % k for k in range(nU)]
    G = R + Q + U
    ops = []
    gr = [GenReg() for _ in range(nregs)]
    nops = rng.randint(opts.get("minops", 6), opts.get("maxops", 36))
    prefix = opts.get("prefix")

    def ref_in(r, g, strict=0.85):
        c = [p for p in P if gr[r].pt.get(p) == g]
        if c and rng.random() < strict:
            return rng.choice(c)
        return rng.choice(P)

    def some_region(r, kinds="RQU"):
        c = [g for g in G if g[0] in kinds]
        ci = [g for g in c if any(gr[r].pt.get(p) == g for p in P)]
        if ci and rng.random() < 0.8:
            return rng.choice(ci)
        return rng.choice(c) if c else None

    def small_exp(vars_):
        n = rng.choice([0, 1, 1, 2])
        vs = rng.sample(vars_, min(n, len(vars_)))
        return [(rng.choice([1, 1, -1, 2]), v) for v in sorted(vs)], rng.choice(SMALL)

    # prelude: most regions are initialised once in register 0, then copied
    if prefix is not None:
        ops.extend(prefix)
        for o in prefix:                     # replay the prefix on the generator's beliefs
            t = o.split()
            if t[0] == "init": gr[int(t[1])].inited.add(t[2])
            elif t[0] == "mk": gr[int(t[1])].pt[t[2]] = t[3]
            elif t[0] == "gep": gr[int(t[1])].pt[t[2]] = t[3]
            elif t[0] == "st": gr[int(t[1])].written.setdefault(t[3], set()).add(t[2])
            elif t[0] == "copy": gr[int(t[1])] = gr[int(t[2])].copy()
    else:
        for g in G:
            if rng.random() < 0.85:
                ops.append("init 0 %s" % g); gr[0].inited.add(g)
        if rng.random() < 0.8:
            for r in range(1, nregs):
                ops.append("copy %d 0" % r); gr[r] = gr[0].copy()

    weights = {"mk": 14, "st": 16, "ld": 16, "gep": 7, "free": 2, "rcopy": 3, "assume_ref": 5, "selref": 3, "tag": 4,
               "assign": 6, "arith": 3, "assume": 3, "havoc": 2, "join": 5, "widen": 2, "meet": 1, "narrow": 1,
               "copy": 4, "joinip": 1, "init": 1}
    if full:
        # b := does_not_have_tag(..) is a no-op (b is not even forgotten) when the tag analysis is
        # switched off: whether that is intended for intrinsics is unclear, so it is only
        # generated with the analysis on
        weights.update({"rcast": 3 if U else 0, "r2i": 3, "i2r": 3, "nothastag": 2 if params[2] == "1" else 0, "bassign": 2, "bassign_ref": 3,
                        "bassume": 2, "assume_nref": 3, "nonnull": 2, "forget": 2, "project": 1, "select": 1,
                        "widenthr": 1, "q_entails": 2})
    if m2:
        weights.update({"rcast": 4 if U else 0, "r2i": 3, "i2r": 3, "assume_nref": 3, "nonnull": 2, "forget": 2, "project": 1,
                        "isderef": 2 if params[3] == "1" else 0, "q_deref": 4 if params[3] == "1" else 0,
                        "init": 2, "havoc": 3, "meet": 0 if U else 2, "narrow": 0 if U else 1})
    if not (full or m2) and params[3] == "1":
        # the offset / size ghost variables of is_dereferenceable are not modelled: leave out the
        # modelled operations that can observe them (meet, narrowing; reference equalities above)
        weights.update({"meet": 0, "narrow": 0})
    weights.update(opts.get("weights", {}))
    names = [k for k, v in weights.items() if v > 0]
    ws = [weights[k] for k in names]
    for _ in range(nops):
        r = rng.randrange(nregs)
        pick = rng.choices(names, ws)[0]
        g_ = gr[r]
        if pick == "init":
            c = [g for g in G if g not in g_.inited]
            if m2 and rng.random() < 0.3:
                c = list(G)                   # a second region_init: an error unless the count allows it
            if not c:
                continue
            g = rng.choice(c); ops.append("init %d %s" % (r, g)); g_.inited.add(g)
        elif pick == "mk":
            p = rng.choice(P); g = rng.choice(G)
            sz = "c:%d" % rng.choice([4, 8, 16]) if rng.random() < 0.8 else "v:%s" % rng.choice(I)
            ops.append("mk %d %s %s %d %s" % (r, p, g, rng.randrange(6), sz)); g_.pt[p] = g
        elif pick == "free":
            g = some_region(r)
            ops.append("free %d %s %s" % (r, g, ref_in(r, g)))
        elif pick == "st":
            g = some_region(r)
            p = ref_in(r, g)
            if g[0] == "R" or (g[0] == "U" and rng.random() < 0.7):
                val = "c:%d" % rng.choice(SMALL + [100, -7]) if rng.random() < 0.6 else "v:%s" % rng.choice(I)
            else:
                val = "null" if rng.random() < 0.25 else "v:%s" % rng.choice(P)
            ops.append("st %d %s %s %s" % (r, p, g, val))
            g_.written.setdefault(g, set()).add(p)
        elif pick == "ld":
            c = [g for g in G if g in g_.written]
            g = rng.choice(c) if c and rng.random() < 0.9 else some_region(r)
            c2 = [p for p in g_.written.get(g, ()) if g_.pt.get(p) == g]
            p = rng.choice(c2) if c2 and rng.random() < 0.6 else ref_in(r, g)
            if g[0] == "R" or (g[0] == "U" and rng.random() < 0.7):
                x = rng.choice(I)
            else:
                x = rng.choice(P); g_.pt[x] = None
            ops.append("ld %d %s %s %s" % (r, x, p, g))
        elif pick == "gep":
            g1 = some_region(r); p1 = ref_in(r, g1)
            g2 = g1 if rng.random() < 0.75 else rng.choice(G)
            p2 = rng.choice(P)
            if rng.random() < 0.45:
                e = ([], 0)
            elif rng.random() < 0.8:
                e = ([], rng.choice([4, 8, 12, 1, -4]))
            else:
                e = ([(rng.choice([1, 4]), rng.choice(I))], rng.choice([0, 4]))
            ops.append("gep %d %s %s %s %s %s" % (r, p2, g2, p1, g1, fmt_exp(*e))); g_.pt[p2] = g2
        elif pick in ("rcopy",):
            k2 = rng.choice([x for x in "RQU" if len([g for g in G if g[0] == x]) >= 2] or ["R"])
            c = [g for g in G if g[0] == k2]
            if len(c) < 2:
                continue
            l, rr = rng.sample(c, 2)
            ops.append("rcopy %d %s %s" % (r, l, rr))
            for p in P:
                if g_.pt.get(p) == rr and rng.random() < 0.5:
                    g_.pt[p] = l
            if rr in g_.written:
                g_.written[l] = set(g_.written[rr])
        elif pick == "rcast":
            if not U or not (R + Q):
                continue
            u = rng.choice(U); t = rng.choice(R + Q)
            if rng.random() < 0.5:
                ops.append("rcast %d %s %s" % (r, u, t))
            else:
                ops.append("rcast %d %s %s" % (r, t, u))
        elif pick in ("assume_ref", "assume_nref", "bassign_ref"):
            pre = "%s %d " % (pick, r) + ("%s " % rng.choice(B) if pick == "bassign_ref" else "")
            if rng.random() < 0.6:
                ops.append(pre + "u %s %s" % (rng.choice(["eq", "ne", "gt", "eq", "ne", "le", "ge", "lt"]), rng.choice(P)))
            else:
                p, q = rng.choice(P), rng.choice(P)
                rels = ["eq", "eq", "ne", "lt", "le", "gt", "ge"]
                if not (full or m2) and params[3] == "1":
                    rels = ["ne", "lt", "le", "gt", "ge"]   # offset/size ghost variables are not modelled
                ops.append(pre + "b %s %s %s %d" % (rng.choice(rels), p, q, rng.choice([0, 0, 0, 4, -4])))
        elif pick == "nonnull":
            ops.append("nonnull %d %s" % (r, rng.choice(P)))
        elif pick in ("isderef", "q_deref"):
            g = some_region(r); p = ref_in(r, g)
            sz = "c:%d" % rng.choice([1, 4, 8, 12, 16, 17]) if rng.random() < 0.8 else "v:%s" % rng.choice(I)
            if pick == "isderef":
                ops.append("isderef %d %s %s %s %s" % (r, rng.choice(B), g, p, sz))
            else:
                ops.append("q_deref %d %s %s" % (r, p, sz))
        elif pick == "selref":
            g = rng.choice(G); p = rng.choice(P); b = rng.choice(B)
            def arm():
                if rng.random() < 0.3:
                    return "null -"
                gg = g if rng.random() < 0.7 else rng.choice(G)
                return "%s %s" % (ref_in(r, gg), gg)
            ops.append("selref %d %s %s %s %s %s" % (r, p, g, b, arm(), arm())); g_.pt[p] = g
        elif pick == "r2i":
            g = some_region(r); ops.append("r2i %d %s %s %s" % (r, g, ref_in(r, g), rng.choice(I)))
        elif pick == "i2r":
            g = rng.choice(G); p = rng.choice(P)
            ops.append("i2r %d %s %s %s" % (r, rng.choice(I), g, p)); g_.pt[p] = g
        elif pick == "tag":
            g = some_region(r); ops.append("tag %d %s %s %d" % (r, g, ref_in(r, g), rng.randrange(4)))
        elif pick == "nothastag":
            g = some_region(r); ops.append("nothastag %d %s %s %s %d" % (r, rng.choice(B), g, ref_in(r, g), rng.randrange(4)))
        elif pick == "assign":
            ops.append("assign %d %s %s" % (r, rng.choice(I), fmt_exp(*small_exp(I))))
        elif pick == "arith":
            z = "v %s" % rng.choice(I) if rng.random() < 0.5 else "k %d" % rng.choice([1, 2, 3, -1, 0, 7])
            ops.append("arith %d %s %s %s %s" % (r, rng.choice(["add", "sub", "mul", "sdiv", "srem"] if full else ["add", "sub", "mul"]),
                                               rng.choice(I), rng.choice(I), z))
        elif pick == "assume":
            x = rng.choice(I); kk = rng.choice(SMALL)
            c = rng.choice([("le", [(1, x)], -kk), ("le", [(-1, x)], kk), ("eq", [(1, x)], -kk), ("ne", [(1, x)], -kk)])
            ops.append("assume %d 1 %s" % (r, fmt_cst(*c)))
        elif pick == "q_entails":
            x = rng.choice(I); kk = rng.choice(SMALL)
            ops.append("q_entails %d %s" % (r, fmt_cst("le", [(1, x)], -kk)))
        elif pick == "select":
            x = rng.choice(I)
            ops.append("select %d %s %s %s %s" % (r, rng.choice(I), fmt_cst("le", [(1, x)], -rng.choice(SMALL)),
                                                  fmt_exp(*small_exp(I)), fmt_exp(*small_exp(I))))
        elif pick == "bassign":
            x = rng.choice(I)
            ops.append("bassign %d %s %s" % (r, rng.choice(B), fmt_cst("le", [(1, x)], -rng.choice(SMALL))))
        elif pick == "bassume":
            ops.append("bassume %d %s %d" % (r, rng.choice(B), rng.randrange(2)))
        elif pick == "havoc":
            v = rng.choice(I + B + P + (G if rng.random() < 0.3 else []))
            if m2 and rng.random() < 0.4:
                v = rng.choice(G)
            ops.append("havoc %d %s" % (r, v))
            if v in P: g_.pt[v] = None
            if m2 and v in G: g_.inited.discard(v)
        elif pick in ("forget", "project"):
            allv = I + B + P + G
            vs = rng.sample(allv, rng.randint(1, min(3, len(allv)))) if pick == "forget" else \
                rng.sample(allv, rng.randint(max(1, len(allv) - 3), len(allv)))
            ops.append("%s %d %d %s" % (pick, r, len(vs), " ".join(vs)))
            for p in P:
                if (p in vs) == (pick == "forget"): g_.pt[p] = None
        elif pick in ("join", "joinip", "widen", "meet", "narrow", "widenthr"):
            s, t = rng.randrange(nregs), rng.randrange(nregs)
            extra = ""
            if pick == "widenthr":
                ths = sorted(set(rng.choice([-10, 0, 1, 5, 10, 100]) for _ in range(rng.randint(0, 3))))
                extra = " %d %s" % (len(ths), " ".join(map(str, ths)))
            ops.append("%s %d %d %d%s" % (pick, r, s, t, extra))
            n = GenReg()
            n.inited = gr[s].inited & gr[t].inited
            for p in P:
                if gr[s].pt.get(p) == gr[t].pt.get(p):
                    n.pt[p] = gr[s].pt.get(p)
                elif rng.random() < 0.5:
                    n.pt[p] = gr[s].pt.get(p) or gr[t].pt.get(p)
            for g in G:
                if g in gr[s].written or g in gr[t].written:
                    n.written[g] = set(gr[s].written.get(g, ())) | set(gr[t].written.get(g, ()))
            gr[r] = n
        elif pick == "copy":
            s = rng.randrange(nregs)
            if s == r:
                continue
            ops.append("copy %d %d" % (r, s)); gr[r] = gr[s].copy()
    # final probes: loads through every reference the generator believes valid
    for r in range(nregs):
        if rng.random() < 0.7:
            for p in P:
                g = gr[r].pt.get(p)
                if g and g in gr[r].written and rng.random() < 0.7:
                    if g[0] == "R":
                        ops.append("ld %d %s %s %s" % (r, rng.choice(I), p, g))
                    elif g[0] == "Q":
                        ops.append("ld %d %s %s %s" % (r, rng.choice(P), p, g))
    hdr = "rg %s %d %d %d %d %d %d %d" % (params, nregs, ni, nb, np_, nR, nQ, nU)
    return hdr + " ; " + " ; ".join(ops)


CORPUS = [
    # re-making a reference through the same variable must not keep the region a singleton
    "rg 11101 1 2 1 3 1 0 0 ; init 0 R0 ; mk 0 p0 R0 1 c:4 ; st 0 p0 R0 c:1 ; gep 0 p1 R0 p0 R0 E 0 0 ; mk 0 p0 R0 2 c:4 ; st 0 p0 R0 c:2 ; ld 0 i0 p1 R0",
    "rg 11101 1 2 1 3 1 1 0 ; init 0 R0 ; init 0 Q0 ; mk 0 p2 Q0 3 c:4 ; mk 0 p0 R0 1 c:4 ; st 0 p0 R0 c:1 ; st 0 p2 Q0 v:p0 ; mk 0 p0 R0 2 c:4 ; st 0 p0 R0 c:2 ; ld 0 p1 p2 Q0 ; ld 0 i0 p1 R0",
    # a fresh reference is not null even if the variable held null before
    "rg 11101 1 2 1 2 1 0 0 ; assume_ref 0 u eq p0 ; init 0 R0 ; mk 0 p0 R0 1 c:4 ; st 0 p0 R0 c:7 ; ld 0 i0 p0 R0",
    # two null references are equal whatever their allocation-site sets say
    "rg 11101 1 1 1 6 1 2 0 ; init 0 R0 ; init 0 Q0 ; init 0 Q1 ; mk 0 p0 Q0 0 c:4 ; gep 0 p1 Q0 p0 Q0 E 0 4 ; mk 0 p2 Q1 0 c:4 ; gep 0 p3 Q1 p2 Q1 E 0 4 ; "
    "mk 0 p4 R0 1 c:4 ; mk 0 p5 R0 2 c:4 ; st 0 p0 Q0 v:p4 ; st 0 p1 Q0 null ; st 0 p2 Q1 v:p5 ; st 0 p3 Q1 null ; ld 0 p4 p1 Q0 ; ld 0 p5 p3 Q1 ; assume_ref 0 b eq p4 p5 0 ; assign 0 i0 E 0 3",
    # plain singleton / weak update behaviour
    "rg 11101 2 2 1 3 1 0 0 ; init 0 R0 ; mk 0 p0 R0 1 c:4 ; st 0 p0 R0 c:5 ; ld 0 i0 p0 R0 ; mk 0 p1 R0 2 c:4 ; st 0 p1 R0 c:9 ; ld 0 i1 p0 R0 ; ld 0 i0 p1 R0",
    "rg 00000 2 2 1 3 1 0 0 ; init 0 R0 ; mk 0 p0 R0 1 c:4 ; copy 1 0 ; st 0 p0 R0 c:5 ; st 1 p0 R0 c:6 ; join 0 0 1 ; ld 0 i0 p0 R0",
    "rg 11111 2 2 1 3 1 0 0 ; init 0 R0 ; mk 0 p0 R0 1 c:4 ; st 0 p0 R0 c:0 ; copy 1 0 ; ld 1 i0 p0 R0 ; arith 1 add i0 i0 k 1 ; st 1 p0 R0 v:i0 ; widen 0 0 1 ; ld 0 i1 p0 R0",
]


# minimal histories of past findings outside the modelled fragment (search streams only)
CORPUS_FULL = [
    # a copy of an abstract value must not call back into the value it was copied from
    "rg 00010 3 3 2 5 1 2 1 ; assume_ref 1 u le p4",
    "rg 00000 3 2 1 5 1 1 1 ; ld 2 i1 p3 U0 ; r2i 2 U0 p2 i1 ; mk 2 p2 U0 3 c:16 ; assign 1 i0 E 2 1 i0 2 i1 3",
    # p == q + k says nothing about size(p) - size(q)
    "rg 11111 1 2 1 3 1 0 0 ; init 0 R0 ; mk 0 p0 R0 1 c:16 ; gep 0 p1 R0 p0 R0 E 0 4 ; assume_ref 0 b eq p1 p0 4 ; assign 0 i0 E 0 3",
    # region_cast / region_copy from an untracked region overwrite the destination
    "rg 11101 1 2 1 3 1 0 1 ; init 0 R0 ; init 0 U0 ; mk 0 p0 R0 1 c:4 ; st 0 p0 R0 c:5 ; mk 0 p1 U0 2 c:4 ; st 0 p1 U0 c:7 ; rcast 0 U0 R0 ; ld 0 i0 p1 R0",
    "rg 11100 1 2 1 3 0 0 2 ; init 0 U0 ; init 0 U1 ; mk 0 p0 U1 1 c:4 ; st 0 p0 U1 c:5 ; st 0 p0 U1 c:5 ; rcopy 0 U1 U0 ; mk 0 p1 U1 2 c:4 ; st 0 p1 U1 c:9 ; ld 0 i0 p1 U1",
    # the stale address of the left-hand side of ref_make seen through ref_to_int
    "rg 10001 3 2 1 4 1 1 1 ; assume_nref 0 u gt p2 ; mk 0 p2 R0 3 c:4 ; r2i 0 R0 p2 i1",
]


# minimal histories of the findings in the code of unknown regions (fixes/regions-7..9): model stream of
# Dom/RegionCore2.v and search streams
CORPUS2 = [
    # regions-7: the first store into an unknown region must not read ghost variables of an earlier life
    "rg 00010 1 2 1 3 1 0 1 ; init 0 U0 ; init 0 R0 ; mk 0 p0 U0 1 c:4 ; st 0 p0 U0 null ; st 0 p0 U0 null ; havoc 0 U0 ; init 0 U0 ; mk 0 p0 U0 1 c:4 ; mk 0 p1 R0 2 c:4 ; st 0 p0 U0 v:p1 ; ld 0 p2 p0 U0",
    "rg 00010 1 2 1 3 1 0 2 ; init 0 U0 ; init 0 U1 ; init 0 R0 ; mk 0 p0 U0 1 c:4 ; st 0 p0 U0 null ; st 0 p0 U0 null ; rcopy 0 U0 U1 ; mk 0 p0 U0 1 c:4 ; mk 0 p1 R0 2 c:4 ; st 0 p0 U0 v:p1 ; ld 0 p2 p0 U0",
    "rg 00000 2 2 1 3 1 0 1 ; init 0 U0 ; copy 1 0 ; mk 0 p0 U0 1 c:4 ; st 0 p0 U0 c:5 ; st 0 p0 U0 c:5 ; st 1 p1 U0 c:5 ; st 1 p1 U0 c:5 ; join 0 0 1 ; init 0 U0 ; mk 0 p0 U0 1 c:4 ; st 0 p0 U0 c:7 ; ld 0 i0 p0 U0",
    "rg 00010 1 2 1 3 1 0 1 ; init 0 U0 ; init 0 R0 ; mk 0 p0 U0 1 c:4 ; st 0 p0 U0 c:5 ; assign 0 i0 E 0 7 ; i2r 0 i0 R0 p1 ; st 0 p0 U0 v:p1 ; havoc 0 U0 ; init 0 U0 ; mk 0 p0 U0 1 c:4 ; st 0 p0 U0 c:9 ; ld 0 i1 p0 U0",
    # regions-8: a store that is not written to the base domain still counts for allocation sites and tags
    "rg 10100 2 2 1 4 1 0 1 ; init 0 U0 ; init 0 R0 ; mk 0 p0 U0 1 c:4 ; copy 1 0 ; st 0 p0 U0 c:1 ; mk 1 p1 R0 2 c:4 ; st 1 p0 U0 v:p1 ; join 0 0 1 ; mk 0 p2 R0 3 c:4 ; st 0 p0 U0 v:p2 ; ld 0 p3 p0 U0",
    # regions-9: the reinterpreting store must not leave the region "uninitialised"
    "rg 00000 1 2 1 4 1 0 1 ; init 0 U0 ; init 0 R0 ; mk 0 p0 U0 1 c:4 ; mk 0 p1 U0 2 c:4 ; st 0 p0 U0 c:5 ; st 0 p0 U0 null ; mk 0 p2 R0 3 c:4 ; nonnull 0 p2 ; st 0 p1 U0 v:p2 ; ld 0 p3 p0 U0",
    # offsets and sizes
    "rg 00010 1 2 1 3 1 1 1 ; init 0 U0 ; init 0 R0 ; init 0 Q0 ; mk 0 p0 U0 1 c:16 ; gep 0 p1 U0 p0 U0 E 0 4 ; q_deref 0 p1 c:4 ; q_deref 0 p1 c:13 ; st 0 p0 U0 v:p1 ; st 0 p0 U0 v:p1 ; ld 0 p2 p0 U0 ; mk 0 p0 Q0 2 v:i0 ; st 0 p0 Q0 v:p1 ; isderef 0 b0 Q0 p0 v:i1",
]
# known finding (not repaired): the meet of two values that give an unknown region incompatible dynamic types
KNOWN_MEET = "rg 00000 3 2 1 2 1 0 1 ; init 0 U0 ; mk 0 p0 U0 1 c:4 ; copy 1 0 ; st 0 p0 U0 null ; st 0 p0 U0 null ; st 0 p0 U0 c:9 ; st 1 p0 U0 c:9 ; st 1 p0 U0 c:9 ; meet 2 0 1"


def scenarios(rng, full):
    """boundary part: short scripted prefixes placed on the case splits of the code (singleton /
    non-singleton regions, uninitialised regions, null references, allocation sites, copies,
    casts, unknown regions), each followed by a few random operations.  -> (shape, nU, prefix)"""
    v = lambda: rng.choice([1, 2, 3, 5, 7, 9])
    a, b = v(), v() + 10
    out = []
    S = lambda shape, nU, ops: out.append((shape, nU, ops))
    # one cell, strong updates
    S((2, 2, 1, 3, 1, 0), 0, ["init 0 R0", "mk 0 p0 R0 1 c:4", "st 0 p0 R0 c:%d" % a, "st 0 p0 R0 c:%d" % b, "ld 0 i0 p0 R0"])
    # two cells through two variables
    S((2, 2, 1, 3, 1, 0), 0, ["init 0 R0", "mk 0 p0 R0 1 c:4", "mk 0 p1 R0 2 c:4", "st 0 p0 R0 c:%d" % a, "st 0 p1 R0 c:%d" % b, "ld 0 i0 p0 R0", "ld 0 i1 p1 R0"])
    # two cells through one variable, the first kept through an alias / in memory
    S((2, 2, 1, 3, 1, 0), 0, ["init 0 R0", "mk 0 p0 R0 1 c:4", "st 0 p0 R0 c:%d" % a, "gep 0 p1 R0 p0 R0 E 0 0", "mk 0 p0 R0 2 c:4", "st 0 p0 R0 c:%d" % b, "ld 0 i0 p1 R0"])
    S((2, 2, 1, 3, 1, 1), 0, ["init 0 R0", "init 0 Q0", "mk 0 p2 Q0 3 c:4", "mk 0 p0 R0 1 c:4", "st 0 p0 R0 c:%d" % a, "st 0 p2 Q0 v:p0", "mk 0 p0 R0 2 c:4", "st 0 p0 R0 c:%d" % b, "ld 0 p1 p2 Q0", "ld 0 i0 p1 R0"])
    S((2, 2, 1, 3, 1, 0), 0, ["init 0 R0", "mk 0 p0 R0 1 c:16", "st 0 p0 R0 c:%d" % a, "gep 0 p1 R0 p0 R0 E 0 0", "gep 0 p0 R0 p0 R0 E 0 4", "st 0 p0 R0 c:%d" % b, "ld 0 i0 p1 R0"])
    # a loop that allocates in the same region through the same variable
    S((3, 2, 1, 3, 1, 1), 0, ["init 0 R0", "init 0 Q0", "mk 0 p2 Q0 3 c:4", "mk 0 p0 R0 1 c:4", "st 0 p0 R0 c:%d" % a, "st 0 p2 Q0 v:p0",
                              "copy 1 0", "mk 1 p0 R0 1 c:4", "st 1 p0 R0 c:%d" % b, "join 2 0 1", "copy 1 2", "mk 1 p0 R0 1 c:4", "st 1 p0 R0 c:%d" % (b + 1),
                              "widen 2 2 1", "ld 2 p1 p2 Q0", "ld 2 i0 p1 R0"])
    # null-ness
    S((2, 2, 1, 3, 1, 0), 0, ["assume_ref 0 u eq p0", "init 0 R0", "mk 0 p0 R0 1 c:4", "st 0 p0 R0 c:%d" % a, "ld 0 i0 p0 R0"])
    S((2, 2, 1, 3, 1, 0), 0, ["init 0 R0", "mk 0 p0 R0 1 c:4", "assume_ref 0 u gt p0", "selref 0 p1 R0 b0 p0 R0 null -", "gep 0 p2 R0 p1 R0 E 0 0"])
    S((2, 2, 1, 3, 1, 1), 0, ["init 0 R0", "init 0 Q0", "mk 0 p0 Q0 1 c:4", "st 0 p0 Q0 null", "ld 0 p1 p0 Q0", "mk 0 p2 R0 2 c:4", "st 0 p0 Q0 v:p2", "ld 0 p1 p0 Q0"])
    # allocation sites and null
    S((1, 1, 1, 6, 1, 2), 0, ["init 0 R0", "init 0 Q0", "init 0 Q1", "mk 0 p0 Q0 0 c:8", "gep 0 p1 Q0 p0 Q0 E 0 4", "mk 0 p2 Q1 0 c:8", "gep 0 p3 Q1 p2 Q1 E 0 4",
                              "mk 0 p4 R0 1 c:4", "mk 0 p5 R0 2 c:4", "st 0 p0 Q0 v:p4", "st 0 p1 Q0 null", "st 0 p2 Q1 v:p5", "st 0 p3 Q1 null",
                              "ld 0 p4 p1 Q0", "ld 0 p5 p3 Q1", "assume_ref 0 b eq p4 p5 0", "assign 0 i0 E 0 3"])
    S((2, 1, 1, 4, 2, 0), 0, ["init 0 R0", "init 0 R1", "mk 0 p0 R0 1 c:4", "mk 0 p1 R1 2 c:4", "assume_ref 0 b %s p0 p1 0" % rng.choice(["eq", "ne"]), "assign 0 i0 E 0 3"])
    # pointer arithmetic and equalities between references
    k = rng.choice([4, 8])
    S((2, 2, 1, 3, 1, 0), 0, ["init 0 R0", "mk 0 p0 R0 1 c:16", "gep 0 p1 R0 p0 R0 E 0 %d" % k, "assume_ref 0 b eq p1 p0 %d" % k, "assign 0 i0 E 0 3"])
    S((2, 2, 1, 3, 1, 0), 0, ["init 0 R0", "mk 0 p0 R0 1 c:16", "gep 0 p1 R0 p0 R0 E 0 %d" % k, "gep 0 p2 R0 p1 R0 E 0 -%d" % k, "assume_ref 0 b eq p2 p0 0", "st 0 p2 R0 c:%d" % a, "ld 0 i0 p0 R0"])
    # region copies
    S((2, 2, 1, 3, 2, 0), 0, ["init 0 R0", "init 0 R1", "mk 0 p0 R0 1 c:4", "st 0 p0 R0 c:%d" % a, "rcopy 0 R1 R0", "st 0 p0 R0 c:%d" % b, "ld 0 i0 p0 R1", "ld 0 i1 p0 R0"])
    S((2, 2, 1, 3, 2, 0), 0, ["init 0 R0", "init 0 R1", "mk 0 p0 R0 1 c:4", "mk 0 p1 R0 1 c:4", "st 0 p0 R0 c:%d" % a, "st 0 p1 R0 c:%d" % b, "rcopy 0 R1 R0", "ld 0 i0 p0 R1", "ld 0 i1 p1 R1"])
    # tags
    S((2, 2, 1, 3, 2, 0), 0, ["init 0 R0", "init 0 R1", "mk 0 p0 R0 1 c:4", "mk 0 p1 R1 1 c:4", "st 0 p0 R0 c:%d" % a, "tag 0 R0 p0 3", "ld 0 i0 p0 R0", "arith 0 add i1 i0 k 1", "st 0 p1 R1 v:i1"])
    S((2, 2, 1, 3, 1, 0), 0, ["init 0 R0", "mk 0 p0 R0 1 c:4", "mk 0 p1 R0 1 c:4", "st 0 p0 R0 c:%d" % a, "tag 0 R0 p0 2", "assign 0 i0 E 0 4", "st 0 p1 R0 v:i0"])
    # joins of different counts
    S((3, 2, 1, 3, 1, 0), 0, ["init 0 R0", "copy 1 0", "mk 0 p0 R0 1 c:4", "st 0 p0 R0 c:%d" % a, "mk 1 p1 R0 2 c:4", "st 1 p1 R0 c:%d" % b, "join 2 0 1", "ld 2 i0 p0 R0"])
    S((3, 2, 1, 3, 1, 0), 0, ["init 0 R0", "mk 0 p0 R0 1 c:4", "copy 1 0", "st 0 p0 R0 c:%d" % a, "join 2 0 1", "st 2 p0 R0 c:%d" % b, "ld 2 i0 p0 R0"])
    # weak stores of references into a region with several cells: objects of different sizes / allocation sites /
    # tags, the bigger (or the other) one stored last; every cell loaded again; is_dereferenceable around both sizes
    for G, nq, nu in (("Q0", 1, 0),) + ((("U0", 0, 1),) if full else ()):
        s1, s2 = rng.sample([4, 8, 16, 40], 2)
        o2 = rng.choice([0, 0, 4, 16]) if max(s1, s2) > 16 else 0
        pre = ["init 0 R0", "init 0 %s" % G, "mk 0 p0 %s 1 c:24" % G, "gep 0 p1 %s p0 %s E 0 8" % (G, G),
               "mk 0 p2 R0 2 c:%d" % s1, "mk 0 p3 R0 3 c:%d" % s2]
        if o2 and s2 > o2:
            pre.append("gep 0 p3 R0 p3 R0 E 0 %d" % o2)
        if rng.random() < 0.5:
            pre += ["tag 0 R0 p2 1", "tag 0 R0 p3 2"]
        pre += ["st 0 p0 %s v:p2" % G, "st 0 p1 %s v:p3" % G]
        if rng.random() < 0.3:
            pre.append("st 0 p0 %s v:p2" % G)
        pre += ["ld 0 p4 p0 %s" % G, "q_deref 0 p4 c:%d" % min(s1, s2), "q_deref 0 p4 c:%d" % (min(s1, s2) + 4), "q_deref 0 p4 c:%d" % max(s1, s2),
                "ld 0 p5 p1 %s" % G, "q_deref 0 p5 c:%d" % (min(s1, s2) + 1), "q_deref 0 p5 c:%d" % max(1, max(s1, s2) - o2)]
        if not full:      # the reduced model (profile "model") has no offset / size ghost variables
            pre = [o for o in pre if not o.startswith("q_deref")]
        S((2, 2, 1, 6, 1, nq), nu, pre)
    if full:
        # casts and unknown regions
        S((2, 2, 1, 3, 1, 0), 1, ["init 0 R0", "init 0 U0", "mk 0 p0 R0 1 c:4", "st 0 p0 R0 c:%d" % a, "mk 0 p1 U0 2 c:4", "st 0 p1 U0 c:%d" % b, "rcast 0 U0 R0", "ld 0 i0 p1 R0"])
        S((2, 2, 1, 3, 1, 0), 1, ["init 0 R0", "init 0 U0", "mk 0 p0 R0 1 c:4", "st 0 p0 R0 c:%d" % a, "rcast 0 R0 U0", "st 0 p0 U0 c:%d" % b, "ld 0 i0 p0 U0", "rcast 0 U0 R0", "ld 0 i1 p0 R0"])
        S((2, 2, 1, 3, 0, 0), 2, ["init 0 U0", "init 0 U1", "mk 0 p0 U1 1 c:4", "st 0 p0 U1 c:%d" % a, "st 0 p0 U1 c:%d" % a, "rcopy 0 U1 U0", "mk 0 p1 U1 2 c:4", "st 0 p1 U1 c:%d" % b, "ld 0 i0 p1 U1"])
        S((2, 2, 1, 3, 1, 0), 1, ["init 0 U0", "mk 0 p0 U0 1 c:4", "st 0 p0 U0 c:%d" % a, "st 0 p0 U0 c:%d" % b, "ld 0 i0 p0 U0", "mk 0 p1 U0 1 c:4", "st 0 p1 U0 v:p0", "ld 0 p2 p1 U0"])
        S((2, 2, 1, 3, 1, 0), 0, ["init 0 R0", "mk 0 p0 R0 1 c:4", "r2i 0 R0 p0 i0", "arith 0 add i0 i0 k 4", "i2r 0 i0 R0 p1", "st 0 p0 R0 c:%d" % a, "st 0 p1 R0 c:%d" % b, "ld 0 i1 p0 R0"])
    return out


def gen(seed, tier, profile="model", n=None, params=None, opts=None):
    rng = random.Random(seed * 1000003 + (17 if profile == "model" else 91))
    n = n if n is not None else (700 if tier == "quick" else 20000)
    out = list(CORPUS) if profile == "model" else (list(CORPUS) + list(CORPUS2) if profile == "model2" else [])
    # boundary part: scripted prefixes on the case splits, under every parameter setting
    reps = 1 if tier == "quick" else 12
    for _ in range(reps):
        scs = scenarios(rng, profile in ("full", "model2"))
        for j, (shape, nU, prefix) in enumerate(scs):
            pss = PARAMS if tier != "quick" else rng.sample(PARAMS, 6) + ["11101", "11111"]
            for ps in pss:
                if profile not in ("full", "model2") and ps[3] == "1" and any(o.startswith("assume_ref") and " b eq " in o for o in prefix):
                    continue
                out.append(gen_case(rng, profile, ps, dict(opts or {}, shape=shape, nU=nU, prefix=prefix,
                                                           minops=0, maxops=rng.choice([0, 2, 6]))))
    for ps in PARAMS:
        for _ in range(1 if tier == "quick" else 20):
            out.append(gen_case(rng, profile, ps, dict(opts or {}, maxops=14)))
    while len(out) < n:
        out.append(gen_case(rng, profile, params, opts))
    return out
