"""Programs with reference statements and reference assertions (C02, streams fwd-refs-<dom>-oracle).

Text format (one program per line; harness/refasserts.cpp parses the same language):
  refs <nblocks> <nint> <nref> <nreg> <exit|-1> [delay=<n>] [desc=<n>] [prm=<5 bits>] nasserts=<n>
       | B <k> <stmt> ; <stmt> ... | ... | E <a> <b> <a> <b> ...
integers i<k>, references p<k> (p<k> lives in region M<k mod nreg>), entry block 0.
  rinit <m> | mk <p> <size> <site> | gep <q> <p> k <c> | gep <q> <p> v <a> <i> <c>  (q := p + a*i + c)
  rhavoc <p> | rassume <RC> | rassert <RC> <id>
  iassign <i> <c> | iadd <i> <j> <c> | ihavoc <i> | iassume <rel> <i> <c> | iassume2 <rel> <i> <j> <c>  (i rel j + c)
  RC = u <rel> <p>  (p rel NULL)  |  b <rel> <p> <q> <k>  (p rel q + k)      rel in eq ne le lt ge gt

Concrete semantics used by the oracle (independent of crab; python integers):
  * an address is an integer, NULL is 0; `p rel q + k` and `p rel NULL` are the integer comparisons (this is the
    meaning the factory functions mk_eq/mk_not_eq/mk_le/mk_lt/mk_ge/mk_gt(p,q,k) and mk_null/mk_not_null/mk_*_null(p)
    document);
  * every executed make_ref returns a fresh non-null base address; gep_ref(p, e) yields address(p) + value(e), so
    references derived from the same make_ref by gep chains differ by their accumulated offsets and a binary
    constraint between them has a definite truth value;
  * different allocations (and the one "external" object that unknown pointers may point into) get bases from a
    fixed set of addresses 100000 apart (all offsets of the generator are < 1000 in absolute value, so pointer
    arithmetic never leaves the neighbourhood of its base, never reaches NULL and never meets another object);
    WHICH base an allocation gets is part of the non-determinism of the execution: four different orders of the
    bases are enumerated (identity, reverse and two others), so that an ordering (<, <=, >, >=) between references
    with different bases is true on some executions and false on others, while == is always false and != always
    true between them.  Demands are only made from executions that are enumerated: a verdict is refuted only by a
    concrete execution with such bases.
  * a reference that was never assigned holds NULL, or a pointer into the external object (offset 0 or 4);
    havoc(p) additionally may make p an alias of any reference variable that currently holds a value;
    an integer that was never assigned, or was havocked, holds any value of POOL;
  * assume / assume_ref with a false condition end the execution silently; an assertion with a false condition
    ends it too (the analysis continues after an assertion under the assumption that it held);
  * all successors of a block are followed; an execution is cut after MAXVISITS blocks.
Executions are enumerated exhaustively (depth-first over the sequence of non-deterministic choices) up to MAXRUNS
runs per program; when that budget does not suffice, NRANDOM runs with random choices are added.

Demands (property C02): an assertion classified unreachable (U) is reached by no enumerated execution; an assertion
classified safe (S) holds on every enumerated execution that reaches it.  Warnings (W) may be spurious; errors (E)
are not constrained by C02 (counted only)."""
import random, re, zlib

RELS = ("eq", "ne", "le", "lt", "ge", "gt")
POOL = (-2, -1, 0, 1, 2, 3, 4, 5, 6)
BASE_STEP = 100000
BASE_ORDERS = ((1, 2, 3, 4), (4, 3, 2, 1), (2, 4, 1, 3), (3, 1, 4, 2))     # slot 0: external object, 1..3: allocations
MAXVISITS = 14
MAXRUNS = 1200
NRANDOM = 300
DEFAULT_PRM = "10101"
PRMS = ("10101", "10101", "10101", "10111", "00101", "11111", "10100")


def cmp_rel(rel, a, b):
    return {"eq": a == b, "ne": a != b, "le": a <= b, "lt": a < b, "ge": a >= b, "gt": a > b}[rel]


# ------------------------------------------------------------------ text

def fmt_rc(rc):
    return " ".join(str(x) for x in rc)


def fmt_stmt(st):
    if st[0] == "gep":
        _, q, p, a, i, c = st
        return "gep %d %d k %d" % (q, p, c) if i is None else "gep %d %d v %d %d %d" % (q, p, a, i, c)
    if st[0] == "rassume":
        return "rassume " + fmt_rc(st[1])
    if st[0] == "rassert":
        return "rassert %s %d" % (fmt_rc(st[1]), st[2])
    return " ".join(str(x) for x in st)


def fmt_program(nint, nref, nreg, exit_block, blocks, edges, opts):
    na = sum(1 for b in blocks for st in b if st[0] == "rassert")
    head = "refs %d %d %d %d %d" % (len(blocks), nint, nref, nreg, exit_block)
    for k, v in opts:
        head += " %s=%s" % (k, v)
    head += " nasserts=%d" % na
    parts = [head] + ["B %d %s" % (i, " ; ".join(fmt_stmt(s) for s in b)) for i, b in enumerate(blocks)]
    parts.append("E " + " ".join("%d %d" % e for e in edges))
    return " | ".join(p.rstrip() for p in parts)


def parse_rc(t, k):
    if t[k] == "u":
        return ("u", t[k + 1], int(t[k + 2])), k + 3
    return ("b", t[k + 1], int(t[k + 2]), int(t[k + 3]), int(t[k + 4])), k + 5


def parse_stmt(t):
    op = t[0]
    if op == "gep":
        if t[3] == "k":
            return ("gep", int(t[1]), int(t[2]), 0, None, int(t[4]))
        return ("gep", int(t[1]), int(t[2]), int(t[4]), int(t[5]), int(t[6]))
    if op == "rassume":
        return ("rassume", parse_rc(t, 1)[0])
    if op == "rassert":
        rc, k = parse_rc(t, 1)
        return ("rassert", rc, int(t[k]))
    if op in ("iassume", "iassume2"):
        return (op, t[1]) + tuple(int(x) for x in t[2:])
    return (op,) + tuple(int(x) for x in t[1:])


def parse(line):
    secs = [s.strip() for s in line.split("|")]
    h = secs[0].split()
    assert h[0] == "refs"
    P = {"nblocks": int(h[1]), "nint": int(h[2]), "nref": int(h[3]), "nreg": int(h[4]), "exit": int(h[5]),
         "opts": dict(x.split("=", 1) for x in h[6:])}
    P["blocks"] = [[] for _ in range(P["nblocks"])]
    P["succ"] = [[] for _ in range(P["nblocks"])]
    for s in secs[1:]:
        t = s.split()
        if not t:
            continue
        if t[0] == "B":
            body = " ".join(t[2:])
            P["blocks"][int(t[1])] = [parse_stmt(x.split()) for x in body.split(";") if x.strip()]
        elif t[0] == "E":
            v = [int(x) for x in t[1:]]
            for a, b in zip(v[0::2], v[1::2]):
                if b not in P["succ"][a]:
                    P["succ"][a].append(b)
    P["nasserts"] = int(P["opts"].get("nasserts", 0))
    return P


# ------------------------------------------------------------------ concrete executions

class Chooser:
    """replays a prefix of choices, then takes the first alternative (exhaustive enumeration) or a random one"""

    def __init__(self, prefix=(), rng=None):
        self.prefix = prefix
        self.rng = rng
        self.trace = []

    def choose(self, n):
        i = len(self.trace)
        if self.rng is not None:
            c = self.rng.randrange(n)
        else:
            c = self.prefix[i] if i < len(self.prefix) else 0
        self.trace.append((c, n))
        return c


def next_prefix(trace):
    t = list(trace)
    while t and t[-1][0] + 1 >= t[-1][1]:
        t.pop()
    if not t:
        return None
    return [c for c, _ in t[:-1]] + [t[-1][0] + 1]


class Blocked(Exception):
    pass


class Run:
    def __init__(self, P, ch):
        self.P, self.ch = P, ch
        self.ints = [None] * P["nint"]
        self.refs = [None] * P["nref"]
        self.order = None
        self.nalloc = 0
        self.path = []

    def base(self, slot):
        if self.order is None:
            self.order = BASE_ORDERS[self.ch.choose(len(BASE_ORDERS))]
        if slot < len(self.order):
            return self.order[slot] * BASE_STEP
        return (slot + 1) * BASE_STEP

    def geti(self, i):
        if self.ints[i] is None:
            self.ints[i] = POOL[self.ch.choose(len(POOL))]
        return self.ints[i]

    def unknown_ref(self, aliases=()):
        n = 3 + len(aliases)
        c = self.ch.choose(n)
        if c == 0:
            return 0
        if c <= 2:
            return self.base(0) + (0 if c == 1 else 4)
        return aliases[c - 3]

    def getr(self, p):
        if self.refs[p] is None:
            self.refs[p] = self.unknown_ref()
        return self.refs[p]

    def holds(self, rc):
        if rc[0] == "u":
            return cmp_rel(rc[1], self.getr(rc[2]), 0)
        return cmp_rel(rc[1], self.getr(rc[2]), self.getr(rc[3]) + rc[4])

    def step(self, st, on_assert):
        op = st[0]
        if op == "rinit":
            return
        if op == "mk":
            self.nalloc += 1
            self.refs[st[1]] = self.base(self.nalloc)
        elif op == "gep":
            _, q, p, a, i, c = st
            off = c if i is None else a * self.geti(i) + c
            self.refs[q] = self.getr(p) + off
        elif op == "rhavoc":
            al = sorted(set(v for k, v in enumerate(self.refs) if v is not None and v != 0))
            self.refs[st[1]] = self.unknown_ref(al)
        elif op == "rassume":
            if not self.holds(st[1]):
                raise Blocked()
        elif op == "rassert":
            ok = self.holds(st[1])
            on_assert(self, st, ok)
            if not ok:
                raise Blocked()
        elif op == "iassign":
            self.ints[st[1]] = st[2]
        elif op == "iadd":
            self.ints[st[1]] = self.geti(st[2]) + st[3]
        elif op == "ihavoc":
            self.ints[st[1]] = None
        elif op == "iassume":
            if not cmp_rel(st[1], self.geti(st[2]), st[3]):
                raise Blocked()
        elif op == "iassume2":
            if not cmp_rel(st[1], self.geti(st[2]), self.geti(st[3]) + st[4]):
                raise Blocked()
        else:
            raise ValueError("unknown statement %r" % (st,))

    def go(self, on_assert):
        b = 0
        try:
            for _ in range(MAXVISITS):
                self.path.append(b)
                for st in self.P["blocks"][b]:
                    self.step(st, on_assert)
                nx = self.P["succ"][b]
                if not nx:
                    return
                b = nx[self.ch.choose(len(nx))] if len(nx) > 1 else nx[0]
        except Blocked:
            return

    def describe(self):
        return "path %s, integers %s, references %s (NULL = 0, bases are multiples of %d)" % (
            ">".join("b%d" % b for b in self.path),
            ["?" if v is None else v for v in self.ints], ["?" if v is None else v for v in self.refs], BASE_STEP)


_TRUTH = {}


def truth(line):
    """{id: [times reached, witness of a reaching execution, witness of a reaching execution where it is false]},
    number of runs, exhaustive?"""
    hit = _TRUTH.get(line)
    if hit is not None:
        return hit
    P = parse(line)
    T = {}

    def on_assert(run, st, ok):
        e = T.setdefault(st[2], [0, None, None])
        e[0] += 1
        if e[1] is None:
            e[1] = run.describe()
        if not ok and e[2] is None:
            e[2] = run.describe()
    prefix = []
    runs = 0
    complete = False
    while runs < MAXRUNS:
        ch = Chooser(prefix)
        Run(P, ch).go(on_assert)
        runs += 1
        prefix = next_prefix(ch.trace)
        if prefix is None:
            complete = True
            break
    if not complete:
        rng = random.Random(zlib.crc32(line.encode()) ^ 0x2ef5)
        for _ in range(NRANDOM):
            Run(P, Chooser(rng=rng)).go(on_assert)
            runs += 1
    if len(_TRUTH) > 20000:
        _TRUTH.clear()
    res = (T, runs, complete)
    _TRUTH[line] = res              # (shared by the threads of checks/C02_refs.py: never read back after the store)
    return res


def parse_verdicts(ans):
    """{id: letters}; None when the answer is not a verdict list"""
    m = re.search(r"checks=(\S*)", ans)
    if not m:
        return None
    parts = m.group(1).split(",")
    return {i + 1: v for i, v in enumerate(parts[:-1] if parts and parts[-1] == "" else parts)}


def oracle(line, ans, rng=None):
    """None, or the text of a concrete execution that refutes a 'safe' / 'unreachable' verdict"""
    V = parse_verdicts(ans)
    if V is None:
        return "%s: no verdicts: %s" % (line, ans)
    T, _, _ = truth(line)
    P = parse(line)
    asserts = {st[2]: (b, st[1]) for b, blk in enumerate(P["blocks"]) for st in blk if st[0] == "rassert"}
    for aid in sorted(asserts):
        v = V.get(aid, "")
        t = T.get(aid)
        if t is None:
            continue
        b, rc = asserts[aid]
        if "U" in v:
            return "%s: assertion %d (%s, in b%d) was classified unreachable but an execution reaches it: %s" % (line, aid, show_rc(rc), b, t[1])
        if "S" in v and t[2] is not None:
            return "%s: assertion %d (%s, in b%d) was classified safe but an execution reaches it with a false condition: %s" % (line, aid, show_rc(rc), b, t[2])
    return None


def show_rc(rc):
    sym = {"eq": "==", "ne": "!=", "le": "<=", "lt": "<", "ge": ">=", "gt": ">"}
    if rc[0] == "u":
        return "p%d %s NULL" % (rc[2], sym[rc[1]])
    return "p%d %s p%d + %d" % (rc[2], sym[rc[1]], rc[3], rc[4])


def nontrivial(line, ans):
    """rule: some assertion that concrete executions reach is classified safe (so the verdict is a real claim that the
    oracle tested on executions), or some assertion is classified unreachable"""
    V = parse_verdicts(ans)
    if not V:
        return False
    T, _, _ = truth(line)
    return any(("S" in v and aid in T) or "U" in v for aid, v in V.items())


# ------------------------------------------------------------------ generator

class Prog:
    def __init__(self, nint, nref, nreg=1):
        self.nint, self.nref, self.nreg = nint, nref, nreg
        self.blocks = [[]]
        self.edges = []
        self.na = 0
        self.opts = []
        self.exit = -1
        self.nsites = 0

    def block(self):
        self.blocks.append([])
        return len(self.blocks) - 1

    def edge(self, a, b):
        self.edges.append((a, b))

    def add(self, b, *st):
        self.blocks[b].append(tuple(st))

    def rassert(self, b, rc):
        self.na += 1
        self.blocks[b].append(("rassert", rc, self.na))

    def site(self):
        self.nsites += 1
        return self.nsites - 1

    def line(self):
        return fmt_program(self.nint, self.nref, self.nreg, self.exit, self.blocks, self.edges, self.opts)


KS = (-8, -2, 0, 2, 4, 6, 8)


def boundary_program(rel, mirrored, variant=0, prm=None, opts=()):
    """p := make_ref(mem,16); q := p + 4 (built in several ways); one successor block per k in KS with
    assert_ref(q rel p + k)  (mirrored: assert_ref(p rel q + k)); all of them join in the exit block"""
    G = Prog(1, 4)
    b0 = 0
    G.add(b0, "rinit", 0)
    p, q = 0, 1
    if variant == 0:                                   # the plain form
        G.add(b0, "mk", p, 16, G.site()); G.add(b0, "gep", q, p, 0, None, 4)
    elif variant == 1:                                 # offset in an integer variable
        G.add(b0, "mk", p, 16, G.site()); G.add(b0, "iassign", 0, 4); G.add(b0, "gep", q, p, 1, 0, 0)
    elif variant == 2:                                 # a chain
        G.add(b0, "mk", p, 16, G.site()); G.add(b0, "gep", 2, p, 0, None, 6); G.add(b0, "gep", q, 2, 0, None, -2)
    elif variant == 3:                                 # both derived from a third reference
        G.add(b0, "mk", 2, 16, G.site()); G.add(b0, "gep", p, 2, 0, None, 8); G.add(b0, "gep", q, 2, 0, None, 12)
    elif variant == 4:                                 # scaled variable offset
        G.add(b0, "mk", p, 16, G.site()); G.add(b0, "iassign", 0, 2); G.add(b0, "gep", q, p, 2, 0, 0)
    elif variant == 5:                                 # q built on one path as p+4, on the other as (p+8)-4
        G.add(b0, "mk", p, 16, G.site())
        t, f, j = G.block(), G.block(), G.block()
        G.add(t, "gep", q, p, 0, None, 4)
        G.add(f, "gep", 2, p, 0, None, 8); G.add(f, "gep", q, 2, 0, None, -4)
        G.edge(b0, t); G.edge(b0, f); G.edge(t, j); G.edge(f, j)
        b0 = j
    elif variant == 6:                                 # p known to be non-null first
        G.add(b0, "mk", p, 16, G.site()); G.add(b0, "rassume", ("u", "gt", p)); G.add(b0, "gep", q, p, 0, None, 4)
    else:                                              # a second allocation in between
        G.add(b0, "mk", p, 16, G.site()); G.add(b0, "mk", 3, 16, G.site()); G.add(b0, "gep", q, p, 0, None, 4)
    ex_blocks = []
    for k in KS:
        b = G.block()
        G.edge(b0, b)
        G.rassert(b, ("b", rel, p, q, k) if mirrored else ("b", rel, q, p, k))
        ex_blocks.append(b)
    ex = G.block()
    for b in ex_blocks:
        G.edge(b, ex)
    G.exit = ex
    G.opts = list(opts) + ([("prm", prm)] if prm else [])
    return G.line()


def unary_program(setup, prm=None):
    """one successor block per unary constraint kind on a reference prepared by `setup`"""
    G = Prog(1, 3)
    G.add(0, "rinit", 0)
    p = 0
    if setup == "fresh":
        G.add(0, "mk", p, 8, G.site())
    elif setup == "fresh-nonnull":
        G.add(0, "mk", p, 8, G.site()); G.add(0, "rassume", ("u", "ne", p))
    elif setup == "fresh-positive":
        G.add(0, "mk", p, 8, G.site()); G.add(0, "rassume", ("u", "gt", p))
    elif setup == "null":
        G.add(0, "rassume", ("u", "eq", p))
    elif setup == "null-le-ge":
        G.add(0, "rassume", ("u", "le", p)); G.add(0, "rassume", ("u", "ge", p))
    elif setup == "gep-null":
        G.add(0, "rassume", ("u", "eq", 1)); G.add(0, "gep", p, 1, 0, None, 4)
    elif setup == "gep-null-neg":
        G.add(0, "rassume", ("u", "eq", 1)); G.add(0, "gep", p, 1, 0, None, -4)
    elif setup == "gep-positive":
        G.add(0, "mk", 1, 8, G.site()); G.add(0, "rassume", ("u", "gt", 1)); G.add(0, "gep", p, 1, 0, None, 4)
    elif setup == "gep-positive-neg":
        G.add(0, "mk", 1, 8, G.site()); G.add(0, "rassume", ("u", "gt", 1)); G.add(0, "gep", p, 1, 0, None, -4)
    elif setup == "unknown":
        pass
    elif setup == "havoc":
        G.add(0, "mk", p, 8, G.site()); G.add(0, "rassume", ("u", "gt", p)); G.add(0, "rhavoc", p)
    elif setup == "join-null-fresh":
        t, f, j = G.block(), G.block(), G.block()
        G.add(t, "rassume", ("u", "eq", p)); G.add(f, "mk", p, 8, G.site()); G.add(f, "rassume", ("u", "gt", p))
        G.edge(0, t); G.edge(0, f); G.edge(t, j); G.edge(f, j)
    elif setup == "negative":
        G.add(0, "rassume", ("u", "lt", p))
    else:
        raise ValueError(setup)
    src = len(G.blocks) - 1 if setup == "join-null-fresh" else 0
    outs = []
    for rel in RELS:
        b = G.block(); G.edge(src, b); G.rassert(b, ("u", rel, p)); outs.append(b)
    ex = G.block()
    for b in outs:
        G.edge(b, ex)
    G.exit = ex
    G.opts = [("prm", prm)] if prm else []
    return G.line()


UNARY_SETUPS = ("fresh", "fresh-nonnull", "fresh-positive", "null", "null-le-ge", "gep-null", "gep-null-neg", "gep-positive",
                "gep-positive-neg", "unknown", "havoc", "join-null-fresh", "negative")

# hand-picked programs
CORPUS = [
    # the example of the task: q = p + 4
    "refs 1 0 2 1 0 nasserts=4 | B 0 rinit 0 ; mk 0 16 0 ; gep 1 0 k 4 ; rassert b ge 1 0 4 1 ; rassert b gt 1 0 3 2 ; rassert b le 0 1 -4 3 ; rassert b eq 1 0 4 4 | E",
    # a false assertion makes the rest unreachable
    "refs 1 0 2 1 0 nasserts=3 | B 0 rinit 0 ; mk 0 16 0 ; gep 1 0 k 4 ; rassert b ge 1 0 4 1 ; rassert b ge 1 0 6 2 ; rassert u ne 0 3 | E",
    # offsets that are intervals after a join, unreachable branch with a contradictory assumption
    "refs 5 1 3 1 4 nasserts=5 | B 0 rinit 0 ; mk 0 16 0 ; ihavoc 0 ; iassume ge 0 0 ; iassume le 0 3 | B 1 gep 1 0 v 4 0 0 | B 2 gep 1 0 k 8 | B 3 rassert b ge 1 0 0 1 ; rassert b le 1 0 12 2 ; rassert b lt 1 0 12 3 | B 4 rassume b lt 1 0 0 ; rassert u eq 1 4 ; rassert b eq 1 0 0 5 | E 0 1 0 2 1 3 2 3 3 4",
    # two allocation sites: only == / != are decided between them
    "refs 1 0 3 1 0 nasserts=4 | B 0 rinit 0 ; mk 0 8 0 ; mk 1 8 1 ; rassume u gt 0 ; rassert b ne 0 1 0 1 ; rassert b ne 0 1 8 2 ; rassert b lt 0 1 0 3 ; rassert b ge 0 1 0 4 | E",
    "refs 4 0 3 1 3 nasserts=3 | B 0 rinit 0 ; mk 0 8 0 ; mk 1 8 1 ; rassume u gt 0 | B 1 rassume b eq 0 1 0 ; rassert u eq 2 1 | B 2 rassume b lt 0 1 0 ; rassert b le 0 1 -1 2 ; rassert b lt 0 1 -1 3 | B 3 | E 0 1 0 2 1 3 2 3",
    # two null references are equal whatever their sites
    "refs 1 0 2 2 0 nasserts=3 | B 0 rinit 0 ; rinit 1 ; rassume u eq 0 ; rassume u eq 1 ; rassert b eq 0 1 0 1 ; rassert b le 0 1 0 2 ; rassert b ne 0 1 0 3 | E",
    # the same variable allocated on two paths, and re-allocated after being null
    "refs 4 0 3 1 3 nasserts=3 | B 0 rinit 0 ; mk 1 8 2 ; rassume u gt 1 | B 1 mk 0 8 0 | B 2 mk 0 8 1 | B 3 rassert b ne 0 1 0 1 ; rassert b ne 0 1 4 2 ; rassert b ge 0 1 0 3 | E 0 1 0 2 1 3 2 3",
    "refs 1 0 2 1 0 nasserts=3 | B 0 rinit 0 ; rassume u eq 0 ; mk 0 8 0 ; rassert u eq 0 1 ; gep 1 0 k 4 ; rassert b gt 1 0 0 2 ; rassert u le 0 3 | E",
    # a pointer walking forward in a loop
    "refs 4 1 2 1 3 delay=1 nasserts=4 | B 0 rinit 0 ; mk 0 64 0 ; gep 1 0 k 0 ; iassign 0 0 | B 1 | B 2 iassume le 0 9 ; gep 1 1 k 4 ; iadd 0 0 1 ; rassert b gt 1 0 0 1 | B 3 iassume ge 0 10 ; rassert b ge 1 0 0 2 ; rassert b ge 1 0 4 3 ; rassert b le 1 0 40 4 | E 0 1 1 2 2 1 1 3",
    # and backwards
    "refs 4 1 2 1 3 delay=2 desc=2 nasserts=3 | B 0 rinit 0 ; mk 0 64 0 ; gep 1 0 k 32 | B 1 | B 2 gep 1 1 k -4 ; rassert b lt 1 0 32 1 | B 3 rassert b le 1 0 32 2 ; rassert b ge 1 0 0 3 | E 0 1 1 2 2 1 1 3",
    # havoc of a reference forgets everything, including the allocation site
    "refs 1 0 3 1 0 nasserts=3 | B 0 rinit 0 ; mk 0 8 0 ; mk 1 8 1 ; rassume u gt 0 ; rassume u gt 1 ; rhavoc 1 ; rassert b ne 0 1 0 1 ; rassert u gt 1 2 ; rassert u gt 0 3 | E",
    # negated strict / non-strict inequalities with negative offsets on both sides
    "refs 1 0 3 1 0 nasserts=6 | B 0 rinit 0 ; mk 0 32 0 ; gep 1 0 k -4 ; gep 2 0 k 4 ; rassert b ge 1 2 -8 1 ; rassert b gt 1 2 -9 2 ; rassert b le 1 2 -8 3 ; rassert b lt 1 2 -7 4 ; rassert b ge 2 1 8 5 ; rassert b gt 2 1 8 6 | E",
]


def _bounds_add(a, b):
    return None if a is None or b is None else a + b


def diff_range(ip, iq):
    """interval of offset(p) - offset(q) for two (site, lo, hi) descriptions with the same site (None = unbounded)"""
    lo = None if ip[1] is None or iq[2] is None else ip[1] - iq[2]
    hi = None if ip[2] is None or iq[1] is None else ip[2] - iq[1]
    return lo, hi


def gen_rc(rng, refs, nref):
    """a reference constraint aimed at what the generator believes about the references: refs[p] = (site, lo, hi)
    (derived from allocation `site` with an offset in [lo,hi]), ("null",) or None (unknown)"""
    known = [p for p in range(nref) if refs.get(p) and refs[p][0] != "null"]
    if rng.random() < 0.22 or len(known) < 1:
        p = rng.randrange(nref)
        info = refs.get(p)
        if info and info[0] == "null" and rng.random() < 0.7:
            return ("u", rng.choice(["eq", "le", "ge", "eq", "lt", "ne"]), p)
        return ("u", rng.choice(RELS), p)
    p = rng.choice(known)
    same = [q for q in known if refs[q][0] == refs[p][0] and (q != p or rng.random() < 0.1)]
    if same and rng.random() < 0.85:
        q = rng.choice(same)
        lo, hi = diff_range(refs[p], refs[q])
        mode = rng.random()
        rel = rng.choice(RELS)
        if mode < 0.5:           # true by construction (if the bound exists)
            if rel == "ge" and lo is not None: return ("b", rel, p, q, lo - rng.choice([0, 0, 0, 1, 4]))
            if rel == "gt" and lo is not None: return ("b", rel, p, q, lo - rng.choice([1, 1, 2, 6]))
            if rel == "le" and hi is not None: return ("b", rel, p, q, hi + rng.choice([0, 0, 0, 1, 4]))
            if rel == "lt" and hi is not None: return ("b", rel, p, q, hi + rng.choice([1, 1, 2, 6]))
            if rel == "eq" and lo is not None and lo == hi: return ("b", rel, p, q, lo)
            if rel == "ne":
                if hi is not None and rng.random() < 0.5: return ("b", rel, p, q, hi + rng.choice([1, 2, 4]))
                if lo is not None: return ("b", rel, p, q, lo - rng.choice([1, 2, 4]))
        elif mode < 0.8:         # just beyond the bound
            if rel == "ge" and lo is not None: return ("b", rel, p, q, lo + 1)
            if rel == "gt" and lo is not None: return ("b", rel, p, q, lo)
            if rel == "le" and hi is not None: return ("b", rel, p, q, hi - 1)
            if rel == "lt" and hi is not None: return ("b", rel, p, q, hi)
            if rel in ("eq", "ne") and lo is not None: return ("b", rel, p, q, lo if rng.random() < 0.5 or hi is None else hi)
        return ("b", rel, p, q, rng.randint(-8, 8))
    q = rng.choice([x for x in range(nref) if x != p] or [p])
    return ("b", rng.choice(["eq", "ne", "ne", "lt", "le", "ge", "gt"]), p, q, rng.choice([0, 0, 0, 4, -4, 8, 1]))


def join_info(a, b):
    out = {}
    for k in set(a) | set(b):
        x, y = a.get(k), b.get(k)
        if x is None or y is None:
            continue
        if x[0] == "null" or y[0] == "null":
            if x == y:
                out[k] = x
            continue
        if x[0] != y[0]:
            continue
        out[k] = (x[0], None if x[1] is None or y[1] is None else min(x[1], y[1]), None if x[2] is None or y[2] is None else max(x[2], y[2]))
    return out


def join_ints(a, b):
    out = {}
    for k in set(a) & set(b):
        out[k] = (min(a[k][0], b[k][0]), max(a[k][1], b[k][1]))
    return out


def gen_stmts(rng, G, b, refs, ints, n, allow_alloc=True):
    """n random statements appended to block b; refs / ints (the generator's beliefs) are updated"""
    for _ in range(n):
        r = rng.random()
        known = [p for p in range(G.nref) if refs.get(p)]
        if r < 0.34 and known:                                  # gep with a constant offset
            p = rng.choice(known); q = rng.randrange(G.nref)
            c = rng.choice([4, 4, 8, -4, 2, -2, 1, 12, 0, 16, -8])
            G.add(b, "gep", q, p, 0, None, c)
            info = refs[p]
            refs[q] = (info[0], _bounds_add(info[1], c), _bounds_add(info[2], c)) if info[0] != "null" else None
        elif r < 0.5 and known and ints:                        # gep with a variable offset
            p = rng.choice(known); q = rng.randrange(G.nref)
            i = rng.choice(sorted(ints)); a = rng.choice([1, 1, 4, 2, -1, -4]); c = rng.choice([0, 0, 4, -2])
            G.add(b, "gep", q, p, a, i, c)
            lo, hi = ints[i]
            e = sorted([a * lo + c, a * hi + c])
            info = refs[p]
            refs[q] = (info[0], _bounds_add(info[1], e[0]), _bounds_add(info[2], e[1])) if info[0] != "null" else None
        elif r < 0.62:                                          # an integer gets a (new) range
            i = rng.randrange(G.nint)
            k = rng.random()
            if k < 0.4:
                c = rng.choice([0, 1, 2, 3, 4])
                G.add(b, "iassign", i, c); ints[i] = (c, c)
            elif k < 0.8:
                lo = rng.choice([0, 0, 1, -1, 2]); hi = lo + rng.choice([0, 1, 2, 3])
                G.add(b, "ihavoc", i); G.add(b, "iassume", "ge", i, lo); G.add(b, "iassume", "le", i, hi); ints[i] = (lo, hi)
            elif i in ints:
                c = rng.choice([1, 1, 2, -1])
                G.add(b, "iadd", i, i, c); ints[i] = (ints[i][0] + c, ints[i][1] + c)
        elif r < 0.74:                                          # assume_ref
            k = rng.random()
            if k < 0.35:
                p = rng.randrange(G.nref)
                rel = rng.choice(["gt", "ne", "gt", "ge", "eq", "le", "lt"])
                G.add(b, "rassume", ("u", rel, p))
                if rel == "eq":
                    refs[p] = ("null",)
            else:
                rc = gen_rc(rng, refs, G.nref)
                G.add(b, "rassume", rc)
                if rc[0] == "b" and rc[1] == "eq" and refs.get(rc[3]) and refs[rc[3]][0] != "null":
                    i = refs[rc[3]]
                    refs[rc[2]] = (i[0], _bounds_add(i[1], rc[4]), _bounds_add(i[2], rc[4]))
        elif r < 0.82 and allow_alloc:                          # another allocation
            p = rng.randrange(G.nref)
            s = G.site()
            G.add(b, "mk", p, rng.choice([4, 8, 16, 32]), s); refs[p] = (s, 0, 0)
            if rng.random() < 0.5:
                G.add(b, "rassume", ("u", rng.choice(["gt", "ne"]), p))
        elif r < 0.86:
            p = rng.randrange(G.nref)
            G.add(b, "rhavoc", p); refs.pop(p, None)
        elif r < 0.93 and ints:                                 # relation between integers
            i = rng.choice(sorted(ints)); j = rng.randrange(G.nint)
            if i != j:
                c = rng.choice([0, 1, -1, 2])
                G.add(b, "iassume2", rng.choice(["le", "ge", "eq", "lt"]), j, i, c)
                ints.pop(j, None)
        else:
            rc = gen_rc(rng, refs, G.nref)
            G.rassert(b, rc)


def gen_asserts(rng, G, b, refs, n):
    for _ in range(n):
        G.rassert(b, gen_rc(rng, refs, G.nref))


def gen_program(rng):
    nref = rng.choice([2, 3, 3, 4])
    nint = rng.choice([1, 2, 2])
    nreg = rng.choice([1, 1, 2])
    G = Prog(nint, nref, nreg)
    refs, ints = {}, {}
    for m in range(nreg):
        G.add(0, "rinit", m)
    s = G.site()
    G.add(0, "mk", 0, rng.choice([8, 16, 32, 64]), s); refs[0] = (s, 0, 0)
    if rng.random() < 0.5:
        G.add(0, "rassume", ("u", rng.choice(["gt", "ne", "gt"]), 0))
    if rng.random() < 0.4:
        s = G.site(); p = rng.randrange(1, nref)
        G.add(0, "mk", p, rng.choice([8, 16]), s); refs[p] = (s, 0, 0)
        if rng.random() < 0.6:
            G.add(0, "rassume", ("u", "gt", p))
    if rng.random() < 0.25:
        p = rng.randrange(1, nref)
        if p not in refs:
            G.add(0, "rassume", ("u", "eq", p)); refs[p] = ("null",)
    gen_stmts(rng, G, 0, refs, ints, rng.randint(1, 4))
    shape = rng.choice(["diamond", "diamond", "diamond", "guard", "loop", "loop", "two-diamonds"])
    if shape == "loop" and not [p for p in range(nref) if refs.get(p) and refs[p][0] != "null"]:
        shape = "diamond"
    cur = 0
    if shape in ("diamond", "two-diamonds"):
        for _d in range(2 if shape == "two-diamonds" else 1):
            t, f, j = G.block(), G.block(), G.block()
            G.edge(cur, t); G.edge(cur, f); G.edge(t, j); G.edge(f, j)
            r1, i1, r2, i2 = dict(refs), dict(ints), dict(refs), dict(ints)
            if rng.random() < 0.35 and ints:              # complementary guards on an integer
                i = rng.choice(sorted(ints)); c = rng.randint(ints[i][0] - 1, ints[i][1] + 1)
                G.add(t, "iassume", "le", i, c); G.add(f, "iassume", "gt", i, c)
                i1[i] = (ints[i][0], min(ints[i][1], c)); i2[i] = (max(ints[i][0], c + 1), ints[i][1])
                if i1[i][0] > i1[i][1]: i1.pop(i)
                if i2[i][0] > i2[i][1]: i2.pop(i)
            elif rng.random() < 0.3:                      # complementary guards on references
                rc = gen_rc(rng, refs, nref)
                G.add(t, "rassume", rc)
                neg = {"eq": "ne", "ne": "eq", "le": "gt", "lt": "ge", "ge": "lt", "gt": "le"}[rc[1]]
                G.add(f, "rassume", (rc[0], neg) + rc[2:])
            gen_stmts(rng, G, t, r1, i1, rng.randint(1, 4))
            gen_stmts(rng, G, f, r2, i2, rng.randint(0, 4))
            refs, ints = join_info(r1, r2), join_ints(i1, i2)
            cur = j
            gen_stmts(rng, G, cur, refs, ints, rng.randint(0, 2), allow_alloc=False)
            gen_asserts(rng, G, cur, refs, rng.randint(1, 3))
    elif shape == "guard":
        g, j = G.block(), G.block()
        G.edge(cur, g); G.edge(cur, j); G.edge(g, j)
        r1, i1 = dict(refs), dict(ints)
        G.add(g, "rassume", gen_rc(rng, refs, nref))
        gen_stmts(rng, G, g, r1, i1, rng.randint(1, 3))
        gen_asserts(rng, G, g, r1, rng.randint(1, 2))
        refs, ints = join_info(r1, refs), join_ints(i1, ints)
        cur = j
        gen_asserts(rng, G, cur, refs, rng.randint(1, 3))
    else:                                                 # loop: a reference walks away from its origin
        known = [p for p in range(nref) if refs.get(p) and refs[p][0] != "null"]
        p = rng.choice(known)
        q = rng.choice([x for x in range(nref) if x != p])
        c0 = rng.choice([0, 0, 4, -4])
        G.add(0, "gep", q, p, 0, None, c0)
        info = refs[p]
        refs[q] = (info[0], _bounds_add(info[1], c0), _bounds_add(info[2], c0))
        cnt = rng.randrange(nint)
        bounded = rng.random() < 0.6
        if bounded:
            G.add(0, "iassign", cnt, 0)
        h, body, ex = G.block(), G.block(), G.block()
        G.edge(0, h); G.edge(h, body); G.edge(body, h); G.edge(h, ex)
        step = rng.choice([4, 4, 1, 8, -4, -1])
        nit = rng.choice([2, 3, 5])
        if bounded:
            G.add(body, "iassume", "le", cnt, nit - 1); G.add(ex, "iassume", "ge", cnt, nit)
        G.add(body, "gep", q, q, 0, None, step)
        if bounded:
            G.add(body, "iadd", cnt, cnt, 1)
        i0 = refs[q]
        if step > 0:
            refs[q] = (i0[0], i0[1], _bounds_add(i0[2], step * nit) if bounded else None)
        else:
            refs[q] = (i0[0], _bounds_add(i0[1], step * nit) if bounded else None, i0[2])
        ints.pop(cnt, None)
        rb = dict(refs)
        gen_asserts(rng, G, body, rb, rng.randint(0, 2))
        if rng.random() < 0.3:
            r3 = dict(refs)
            gen_stmts(rng, G, ex, r3, ints, rng.randint(0, 2), allow_alloc=False)
            refs = r3
        gen_asserts(rng, G, ex, refs, rng.randint(1, 3))
        cur = ex
        G.opts += [("delay", rng.choice([1, 2, 2, 3])), ("desc", rng.choice([0, 1, 2]))]
    if rng.random() < 0.35:                               # fan-out of guarded assertions
        outs = []
        for _k in range(rng.randint(2, 3)):
            b = G.block(); G.edge(cur, b); outs.append(b)
            r1 = dict(refs)
            if rng.random() < 0.7:
                G.add(b, "rassume", gen_rc(rng, refs, nref))
            gen_asserts(rng, G, b, r1, rng.randint(1, 2))
        ex = G.block()
        for b in outs:
            G.edge(b, ex)
        cur = ex
    G.exit = cur
    if rng.random() < 0.45:
        G.opts.append(("prm", rng.choice(PRMS)))
    if G.na == 0:
        gen_asserts(rng, G, cur, refs, 2)
    return G.line()


def boundary_stream(rng, nvariants):
    """the scripted sweep: every relation, k in KS, both orientations (plain setup, default parameters), then
    `nvariants` programs of the same sweep with other ways of building q = p + 4, other region parameters and
    fixpoint options; then the unary constraints on references prepared in 13 ways"""
    out = [boundary_program(rel, m) for m in (0, 1) for rel in RELS]
    combos = [(rel, m) for m in (0, 1) for rel in RELS]
    for i in range(nvariants):
        rel, m = combos[i % len(combos)] if i < len(combos) else rng.choice(combos)
        out.append(boundary_program(rel, m, rng.randint(1, 7), rng.choice(PRMS),
                                    opts=[("delay", rng.choice([0, 1, 2])), ("desc", rng.choice([0, 1]))] if rng.random() < 0.3 else ()))
    for s in UNARY_SETUPS:
        out.append(unary_program(s, None if rng.random() < 0.6 else rng.choice(PRMS)))
    return out


def gen(seed, tier, n=None):
    """corpus, scripted boundary sweep, then n structured random programs"""
    rng = random.Random(seed)
    n = n if n is not None else (1500 if tier == "quick" else 20000)
    lines = list(CORPUS)
    lines += boundary_stream(rng, 12 if tier == "quick" else 96)
    lines += [gen_program(rng) for _ in range(n)]
    return lines


if __name__ == "__main__":
    import sys
    for l in gen(int(sys.argv[1]) if len(sys.argv) > 1 else 1, "quick", int(sys.argv[2]) if len(sys.argv) > 2 else 10):
        T, runs, complete = truth(l)
        print(l)
        print("   runs=%d exhaustive=%s" % (runs, complete), {k: (v[0], v[2] is not None) for k, v in sorted(T.items())})
