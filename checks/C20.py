"""C20 — big integers / rationals agree with mathematical arithmetic, checked 64-bit
weights never wrap silently, linear expressions / constraints / systems keep their meaning."""
import vlib, numlin

TRUSTED = [
    "Coq 8.16.1 kernel (coqc); no native_compute",
    "extraction: ExtrOcamlBasic only, no Extract Constant; OCaml 4.13.1; ocaml/numlin_drv.ml + zio "
    "(zarith only for decimal I/O, digit <-> character mapping and token parsing in the driver)",
    "correspondence: gen/numlin.py generators, harness/numlin.cpp (public API of ikos::z_number, ikos::q_number, "
    "crab::safe_i64 incl. its private checked_* primitives via '#define class struct' around safeint.hpp, "
    "ikos::linear_expression/linear_constraint/linear_constraint_system<z_number>), line diff",
    "oracle: python3 int / fractions.Fraction arithmetic (independent of the extracted model)",
    "GMP is the implementation under test together with the wrappers; it is not modelled",
]


def run(rep, tier, seed):
    rep.cov["trusted_base"] = TRUSTED
    rep.cov["rule"] = ("three streams (num: z_number and q_number; safeint: safe_i64; lin: linear expressions, "
                       "constraints, systems), each = hand-picked corpus + boundary pool (0, +-1, +-2^31, +-2^63, +-2^64, "
                       "2^100..2^129 and neighbours; int64 edges and sqrt(2^63) for safe_i64; constant / unary / cancelling / "
                       "duplicated terms, e<=0 / -e<=0 pairs for systems) x all operations + seeded random cases. "
                       "Non-trivial: numbers - the answer is a value (not ABORT) and some operand has magnitude > 1; "
                       "expressions/constraints - some input expression has >= 2 terms; systems - >= 2 constraints; "
                       "distinct by input line")
    rep.assumptions = [
        "z_number / q_number are specification-level models (Coq Z, normalised Q): any difference with GMP-backed code is a violation",
        "safe_i64, linear_expression, linear_constraint, linear_constraint_system are hand-written mirrors tied by differential testing only",
        "shift amounts are in [0, 65536] (the C++ passes mpz_get_ui(k) to GMP: negative or > 2^64 amounts are outside the model and the generators)",
        "fill_ones is called on non-negative numbers only (the C++ asserts it)",
        "strings for z_number(string, base) are [-]digits (GMP also accepts white space; '+' is rejected by GMP)",
        "safe_i64 division by zero traps (SIGFPE) in the C++; the model answers ABORT",
        "linear_constraint in this tree has no signedness flag (all constraints are signed): nothing to model there",
        "hash functions, write()/operator<< pretty printers and disjunctive_linear_constraint_system are not modelled",
    ]
    vlib.prove(rep)
    for name, gen in (("num", numlin.gen_num), ("safeint", numlin.gen_safe), ("lin", numlin.gen_lin)):
        lines = gen(seed, tier)
        vlib.run_stream(rep, name, "numlin", "numlin", lines, oracle=numlin.oracle,
                        nontrivial=numlin.nontrivial)


def replay(path):
    """re-run the recorded case of a replay file on both sides and print both answers"""
    import re, os, tempfile
    txt = open(path).read()
    m = re.search(r"^input: (.*)$", txt, flags=re.M)
    if not m:
        print("no input line in", path)
        return 2
    line = m.group(1)
    d = os.path.join(vlib.VERIF, "out", "C20")
    os.makedirs(d, exist_ok=True)
    cf = os.path.join(d, "replay.cases")
    open(cf, "w").write(line + "\n")
    hexe, err = vlib.build_harness("numlin")
    dexe, err2 = vlib.build_driver("numlin")
    if err or err2:
        print(err or err2)
        return 2
    impl = vlib.run_harness_resilient(hexe, (), cf, 1)
    rc, out = vlib.sh([dexe, cf])
    print("input:", line)
    print("implementation:", impl.get(0))
    print("model:", out.strip())
    print("oracle:", numlin.oracle(line, impl.get(0, "MISSING")))
    return 0
