"""C02 over every native numerical domain (oracle only): the verdicts of intra_checker + assert_property_checker on top of
intra_fwd_analyzer<cfg_ref, Dom> (same domains as checks/C01_doms.py) are never refuted by a concrete execution of
gen/cfgprog.py: no execution reaches a 'safe' assertion with a false condition, none reaches an 'unreachable' one
(streams fwd-<dom>-oracle; numerical assertions everywhere, boolean assertions in the boolean sub-stream).
Machinery: checks/fwddoms.py, harness/fwddoms{1,2,3,4,5}.cpp.

Called from checks/C02.py:   C02_doms.streams(rep, tier, seed)"""
import fwddoms


def streams(rep, tier, seed):
    fwddoms.streams(rep, tier, seed, "C02")
    rep.assumptions.append("verdicts over domains other than intervals: no model; concrete oracle on generated programs (streams fwd-<dom>-oracle)")
    tb = rep.cov.get("trusted_base")
    if isinstance(tb, list):
        tb.append("harness/fwddoms{1,2,3,4,5}.cpp + fwddoms.hpp: intra_fwd_analyzer + intra_checker + assert_property_checker over every other native numerical domain")
