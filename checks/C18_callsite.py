"""C18, second half, call sites: mirror model of transfer_function::callee_to_caller / apply_summary / the statements of
visit(callsite_t&) (coq/Ana/CrawlerCall.v, theorems coq/Props/Properties_C18_callsite.v) against the real static
functions (harness/crawlcall.cpp) + the dependence oracle of gen/crawlcall.py.

Called from checks/C18.py:   C18_callsite.streams(rep, tier, seed)
"""
import vlib, crawlcall

STREAM = "crawler-callsite"
RULE = ("crawler-callsite: corpus (the three failing inputs of e852a9c and variants) + seeded call sites under the policies "
        "perm / ident / shared / disjoint / repeat / outin / empty / nonformal (0-4 inputs, 0-3 outputs, 8 variable names so that "
        "caller and callee names collide); non-trivial = a call result occurs in a fact of the caller and the summary of its formal "
        "output contains a formal input, or (c2c) a formal input with a differently named actual is renamed; distinct by input line")


def streams(rep, tier, seed):
    rep.cov["rule"] = rep.cov.get("rule", "") + " || " + RULE
    rep.assumptions += [
        "call sites: model = hand-written Coq mirror of callee_to_caller / apply_summary / the statements of visit(callsite_t&) "
        "(association lists for discrete_pair_domain, no top element: the crawler never creates one), tied to the sources by "
        "differential testing of the two real static functions; the few statements of visit(callsite_t&) that combine them are "
        "copied in harness/crawlcall.cpp (visit itself is exercised by the oracle stream crawler-inter)",
        "call sites: vectors of equal lengths (the C++ calls CRAB_ERROR otherwise), pairwise distinct results and formal inputs",
    ]
    rc, out = vlib.coq_make(["Extract/ExtractCrawlCall.vo"])
    if rc != 0:
        rep.violation(STREAM + "-extract", "Extract/ExtractCrawlCall.v no longer compiles:\n" + out[-2000:], False)
        return
    lines = crawlcall.gen(seed, tier)
    vlib.run_stream(rep, STREAM, "crawlcall", "crawlcall", lines, oracle=crawlcall.oracle,
                    nontrivial=crawlcall.nontrivial, key=crawlcall.key)
