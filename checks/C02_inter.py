"""C02, inter-procedural part: the verdicts of the assertion checker interleaved with the top-down
inter-procedural analysis (top_down_inter_analyzer, run_checker = true) and of inter_checker over the
bottom-up analysis (bottom_up_inter_analyzer) are never wrong.  Oracle only (no model): the per-assertion
verdict lists printed by harness/inter.cpp (verd=1) against concrete executions (gen/inter.py).

Called from checks/C02.py:   C02_inter.streams(rep, tier, seed)

Meaning of a verdict list (see the comment in gen/inter.py): top-down = one letter per analysed calling
context of the enclosing function, bottom-up = one letter per assertion checker.  Demanded of a non-empty list:
a violating execution => the list contains W or E;  a reaching execution => the list is not made of U only."""
import os, re, random, vlib, inter

STREAM = "inter-verdicts-oracle"
KNOWN_MCC_ID = "C09-joined-calling-contexts"


def _known_entries():
    fs = vlib.load_known().get("findings", [])
    mine = [k for k in fs if k.get("property") == "C02" and k.get("stream") == STREAM]
    mcc = [k for k in fs if k.get("id") == KNOWN_MCC_ID]
    return mine, (mcc[0] if mcc else None)


def _analyzer(line):
    return "bu" if re.search(r"\ban=bu\b", line.split(" | ")[0]) else "td"


def _kind(w):
    if "the analysis with the assertion checker aborted" in w:
        return "abort"
    return "unreachable-reached" if "(unreachable in every checked context)" in w else "safe-violated"


def streams(rep, tier, seed):
    hexe, err = vlib.build_harness("inter")
    if err:
        rep.violation("inter-verdicts-build", err, False)
        return
    quick = tier == "quick"
    lines = inter.gen_verdicts(seed + 202, tier, 300 if quick else 8000)
    d = os.path.join(vlib.VERIF, "out", rep.prop)
    os.makedirs(d, exist_ok=True)
    cf = os.path.join(d, "inter-verdicts.cases")
    open(cf, "w").write("\n".join(lines) + "\n")
    impl = vlib.run_harness_resilient(hexe, [], cf, len(lines), 900)
    nruns = 300 if quick else 200
    known, known_mcc = _known_entries()
    hist = {}
    per_an = {"td": {"cases": 0, "nontrivial": 0, "violations": 0}, "bu": {"cases": 0, "nontrivial": 0, "violations": 0}}
    nt = hits = aborts = claims = mixed = 0
    nknown = {}
    per_class = {}

    def retry_without_mcc(l):
        l2 = inter.with_opts(l, [("mcc", "inf")])
        rf = os.path.join(d, "inter-verdicts.retry.cases")
        open(rf, "w").write(l2 + "\n")
        a2 = vlib.run_harness_resilient(hexe, [], rf, 1, 120).get(0, "MISSING")
        return inter.oracle_verdicts(l2, a2, nruns=4 * nruns)

    for i, l in enumerate(lines):
        a = impl.get(i, "MISSING")
        an = _analyzer(l)
        per_an[an]["cases"] += 1
        _, V = inter.split_verdicts(a)
        if V:
            for L in V.values():
                for ch in L:
                    hist[ch] = hist.get(ch, 0) + 1
                if "S" in L and "W" in L:
                    mixed += 1
            claims += len(inter.verdict_claims(V))
        if inter.nontrivial_verdicts(l, a):
            nt += 1
            per_an[an]["nontrivial"] += 1
        if a in ("ABORT", "MISSING", "TIMEOUT"):
            aborts += 1
        w = inter.oracle_verdicts(l, a, nruns=nruns)
        if not w:
            continue
        kind = _kind(w)
        # findings listed in known_findings.json for this stream
        kn = [k for k in known if re.search(k["line_regex"], l) and re.search(k.get("witness_regex", ""), w)]
        if not kn and re.search(r"\bmcc=\d+\b", l.split(" | ")[0]) and not retry_without_mcc(l):
            # bounded calling contexts (max_call_contexts): the hit disappears when the contexts are not joined
            if known_mcc:
                kn = [dict(known_mcc, what="[verdicts of the interleaved checker under max_call_contexts; the hit disappears "
                                           "with max_call_contexts = UINT_MAX] " + known_mcc["what"])]
            else:
                w = ("[joined calling contexts: the hit disappears with max_call_contexts = UINT_MAX; no entry %s in "
                     "known_findings.json] " % KNOWN_MCC_ID) + w
        if kn:
            nknown[kn[0]["what"]] = nknown.get(kn[0]["what"], 0) + 1
            if nknown[kn[0]["what"]] == 1:
                rep.known_finding("%s [first of this class: %s]" % (kn[0]["what"], w[:1200]))
            continue
        hits += 1
        per_an[an]["violations"] += 1
        cls = "%s-%s" % (an, kind)
        per_class[cls] = per_class.get(cls, 0) + 1
        if per_class[cls] <= 2:
            rep.violation("inter-verdicts-%s-%d" % (cls, i),
                          "FAILING INPUT (%s): " % ("the analysis with the assertion checker aborts" if kind == "abort"
                                                    else "verdict list refuted by a concrete execution") + w +
                          "\ninput: " + l + "\nimplementation: " + a, True)
    rep.cov["streams"][STREAM] = {
        "cases": len(lines), "oracle_violations": hits, "violations_per_class": per_class,
        "distinct_nontrivial": nt, "nontrivial_rule": "at least one assertion has an S or a U in its verdict list",
        "verdict_letters": hist, "assertions_with_a_claim_checked_by_executions": claims,
        "assertions_proved_in_one_context_and_not_in_another": mixed,
        "aborts": aborts, "per_analyzer": per_an, "known_finding_hits": sum(nknown.values()),
        "concrete_runs_per_program_with_a_claim": nruns,
    }
    rep.cov["evaluations"] += len(lines)


def replay(path):
    """re-run the program recorded in a replay file (line 'input: ...'): print the verdict lists and the oracle's answer"""
    txt = open(path).read()
    m = re.search(r"(?m)^input: (.*)$", txt)
    if not m:
        print("no recorded input in", path)
        return 2
    line = m.group(1).strip()
    hexe, err = vlib.build_harness("inter")
    if err:
        print(err)
        return 2
    d = os.path.join(vlib.VERIF, "out", "C02")
    os.makedirs(d, exist_ok=True)
    cf = os.path.join(d, "inter-verdicts.replay.case")
    open(cf, "w").write(line + "\n")
    a = vlib.run_harness_resilient(hexe, (), cf, 1, 120).get(0, "MISSING")
    print("input:          ", line)
    print("implementation: ", a)
    _, V = inter.split_verdicts(a)
    print("verdict lists:  ", V)
    w = inter.oracle_verdicts(line, a, nruns=2000)
    print("oracle:         ", w if w else "no violation found")
    return 1 if w else 0
