"""C09 — top-down inter-procedural analysis: context-insensitive invariants contain every reachable
state, every stored (precondition, postcondition) summary is a summary."""
import os, re, random, vlib, inter

TRUSTED = [
    "Coq 8.16.1 kernel (coqc); no native_compute",
    "extraction: ExtrOcamlBasic only; ocaml/inter_drv.ml parses the textual program, builds the WTO of every CFG and of the call graph (model of wto.hpp, C07), runs the analyzer model, builds the certificate (untrusted) and runs the Coq-verified certificate checker",
    "harness/inter.cpp + intertext.hpp + cfgtext.hpp: top_down_inter_analyzer<call_graph, interval_domain> on real crab CFGs / call graphs built from the same text; prints get_pre/get_post of every block and get_summary of every function",
    "gen/inter.py: program generator and an independent concrete interpreter with a call stack (mathematical integers) used as oracle",
    "concrete semantics of calls = coq/Ana/InterSem.v: the callee runs on its own store where the formal inputs hold the actual values and the rest is arbitrary; outputs are copied to the lhs at the end of the exit block; base statements as coq/Ir/Cfg.v",
    "the intra-procedural layer (interval domain, engine, transformer) is the one of C01/C03",
]
KNOWN_ID = "C09-joined-calling-contexts"


def run_driver(dexe, args, path, timeout=1800):
    rc, out = vlib.sh([dexe] + list(args) + [path], timeout=timeout)
    res = {}
    for l in out.split("\n"):
        if l.startswith("R "):
            sp = l.split(" ", 2)
            res[int(sp[1])] = sp[2] if len(sp) > 2 else ""
    return res


def validate_stream(rep, name, lines, impl, strict):
    """run the Coq-verified certificate checker on the implementation's tables and summaries.
    strict: a rejection is a violation; otherwise rejections are only counted (the certificate
    construction does not model thresholds / the precise handling of recursion / joined contexts)"""
    dexe, err = vlib.build_driver("inter")
    if err:
        rep.violation(name + "-driver", err, False)
        return
    d = os.path.join(vlib.VERIF, "out", rep.prop)
    vf = os.path.join(d, name + ".validate")
    idx = [i for i in range(len(lines)) if impl.get(i) and impl[i] not in ("ABORT", "MISSING")]
    with open(vf, "w") as f:
        for i in idx:
            f.write(lines[i] + " ### " + impl[i] + "\n")
    res = run_driver(dexe, ["--validate"], vf)
    ok = [idx[j] for j in range(len(idx)) if res.get(j) == "ok"]
    skipped = [idx[j] for j in range(len(idx)) if res.get(j) == "skip"]
    bad = [idx[j] for j in range(len(idx)) if res.get(j) not in ("ok", "skip")]
    rep.cov["streams"][name] = {"cases": len(idx), "validated_by_verified_checker": len(ok), "rejected": len(bad),
                                "skipped_no_model_of_the_domain": len(skipped), "strict": strict}
    rep.cov["evaluations"] += len(idx)
    if not strict:
        return
    rng = random.Random(rep.seed)
    for i in bad[:3]:
        w = inter.oracle(lines[i], impl[i], rng)
        text = ("the Coq-verified certificate checker (theorems C09_validated_results_sound / C10_validated_results_sound) rejects "
                "the implementation's invariants and summaries: no certificate could be built for them\n"
                "input: %s\nimplementation: %s\n" % (lines[i], impl[i]))
        if w:
            text = "FAILING INPUT: " + w + "\n" + text
        rep.violation("%s-%d" % (name, i), text, bool(w))


def known_entry(prop):
    for k in vlib.load_known().get("findings", []):
        if k.get("property") == prop and (k.get("id") == KNOWN_ID or str(k.get("stream", "")).startswith("td-mcc")):
            return k
    return None


def oracle_stream(rep, name, lines, impl, hexe):
    """the property oracle on every answer of the implementation.  A violation on a case that
    bounds the calling contexts (mcc=) is attributed to the known finding 'joined calling contexts
    are not summaries' only if it disappears when the same program is analyzed without the bound."""
    rng = random.Random(rep.seed * 31 + 7)
    d = os.path.join(vlib.VERIF, "out", rep.prop)
    hits = known = aborts = 0
    for i, l in enumerate(lines):
        a = impl.get(i, "MISSING")
        if a in ("ABORT", "MISSING"):
            aborts += 1
        w = inter.oracle(l, a, rng)
        if not w:
            continue
        hits += 1
        if re.search(r"\bmcc=\d+\b", l.split(" | ")[0]) and a not in ("ABORT", "MISSING"):
            l2 = inter.with_opts(l, [("mcc", "inf")])
            cf = os.path.join(d, name + ".retry.cases")
            open(cf, "w").write(l2 + "\n")
            a2 = vlib.run_harness_resilient(hexe, [], cf, 1, 120).get(0, "MISSING")
            if not inter.oracle(l2, a2, rng):
                kn = known_entry(rep.prop)
                if kn:
                    known += 1
                    if known <= 3:
                        rep.known_finding("%s (%s)" % (kn["what"], l))
                    continue
                w = ("[joined calling contexts: the violation disappears with max_call_contexts = UINT_MAX; no entry %s in "
                     "known_findings.json] " % KNOWN_ID) + w
        if hits - known <= 3:
            rep.violation("%s-oracle-%d" % (name, i), "FAILING INPUT (property oracle on the implementation's answer): " + w +
                          "\ninput: " + l + "\nimplementation: " + a, True)
    st = rep.cov["streams"].setdefault(name, {})
    st.update({"oracle_cases": len(lines), "oracle_violations": hits, "attributed_to_known_finding": known, "aborts": aborts})


def harness_only(rep, name, lines):
    hexe, err = vlib.build_harness("inter")
    if err:
        rep.violation(name + "-build", err, False)
        return None, None
    d = os.path.join(vlib.VERIF, "out", rep.prop)
    os.makedirs(d, exist_ok=True)
    cf = os.path.join(d, name + ".cases")
    open(cf, "w").write("\n".join(lines) + "\n")
    impl = vlib.run_harness_resilient(hexe, [], cf, len(lines), 1800)
    rep.cov["evaluations"] += len(lines)
    return hexe, impl


def run(rep, tier, seed):
    rep.cov["trusted_base"] = TRUSTED
    rep.cov["rule"] = ("call graphs of 2-5 functions over a shared pool of 3-6 variable names (callee formals reused as actuals at "
                       "other positions, outputs overwriting arguments, lhs named like callee formals, repeated calls with different "
                       "contexts, functions without exit block or outputs, several entry functions), bodies = sequences / diamonds / "
                       "counting loops of the C01 statement mix, direct and mutual recursion in separate streams x widening delay 0-3 x "
                       "descending iterations 0-3 x exact/approximate summary reuse x max_call_contexts in {0,1,2,UINT_MAX} x "
                       "analyze_recursive_functions x thresholds 0/5/20 x interleaved checker on/off x optional initial constraints; "
                       "non-trivial = a function other than main has a reachable block with a non-top entry invariant and a summary is stored")
    rep.assumptions = [
        "theorems are about the models; the implementation is tied on generated programs",
        "well-formed functions: formal inputs and outputs pairwise distinct, a function never assigns its formal inputs (stated at the top of top_down_inter_analyzer.hpp), callsites match their callee's signature and have pairwise distinct lhs variables",
        "mirror: thresholds off, any reuse mode / delay / descending iterations; analyze_recursive_functions=false with any max_call_contexts (coq/Ana/InterTD.v, streams td-nonrec, td-rec, td-mcc); analyze_recursive_functions=true with max_call_contexts=UINT_MAX (coq/Ana/InterTDRec.v: function fixpoints over the heads of the call graph WTO cycles, nested cycles and cycles entered through a non-head member included; stream td-rec1, exact agreement required on every case, model proved sound in Props/Properties_C09_rec.v); thresholds, and analyze_recursive_functions=true combined with thresholds / bounded calling contexts, are covered by the concrete oracle and, where a certificate can be built, by the verified checker on the implementation's output (stream td-params: rejections are counted, not reported)",
        "max_call_contexts < UINT_MAX: joined calling contexts are not summaries (C09_joined_contexts_refuted, known finding): results of such runs are compared with the model and searched by the oracle, not validated",
        "domains other than intervals: not exercised by this check",
    ]
    vlib.prove(rep, extra_targets=["Extract/ExtractInter.vo"])
    # mirrored configurations: exact correspondence + oracle + verified checker on the implementation's output
    for k, name in enumerate(("td-nonrec", "td-rec")):
        lines = inter.gen(seed + 11 + k, tier, name)
        r = vlib.run_stream(rep, name, "inter", "inter", lines, oracle=inter.oracle, nontrivial=inter.nontrivial,
                            key=lambda l: "program")
        if r:
            validate_stream(rep, name + "-validated", lines, r[0], True)
    # analyze_recursive_functions = true: exact correspondence with the mirror coq/Ana/InterTDRec.v (proved sound:
    # Props/Properties_C09_rec.v) + oracle on every answer of the implementation
    lines = inter.gen(seed + 41, tier, "td-rec1")
    vlib.run_stream(rep, "td-rec1", "inter", "inter", lines, oracle=inter.oracle, nontrivial=inter.nontrivial,
                    key=lambda l: "program")
    # bounded calling contexts: correspondence (the model mirrors the join policy), oracle with triage
    lines = inter.gen(seed + 21, tier, "td-mcc")
    r = vlib.run_stream(rep, "td-mcc", "inter", "inter", lines, oracle=None, nontrivial=inter.nontrivial,
                        key=lambda l: "program")
    if r:
        hexe, _ = vlib.build_harness("inter")
        oracle_stream(rep, "td-mcc", lines, r[0], hexe)
        validate_stream(rep, "td-mcc-validated", lines, r[0], False)
    # configurations outside the mirror: oracle + checker where a certificate can be built
    lines = inter.gen(seed + 31, tier, "td-params")
    hexe, impl = harness_only(rep, "td-params", lines)
    if impl is not None:
        oracle_stream(rep, "td-params", lines, impl, hexe)
        validate_stream(rep, "td-params-validated", lines, impl, False)


def replay(path):
    """bin/check C09 --replay <file>: re-run the recorded program on both sides; print both answers,
    the oracle's verdict and the verdict of the Coq-verified checker on the implementation's answer"""
    txt = open(path).read()
    m = re.search(r"(?m)^input: (.*)$", txt)
    if not m:
        print("no recorded input in", path)
        return 2
    line = m.group(1).strip()
    hexe, err = vlib.build_harness("inter")
    dexe, err2 = vlib.build_driver("inter")
    if err or err2:
        print(err or err2)
        return 2
    d = os.path.join(vlib.VERIF, "out", "C09")
    os.makedirs(d, exist_ok=True)
    cf = os.path.join(d, "replay.case")
    open(cf, "w").write(line + "\n")
    impl = vlib.run_harness_resilient(hexe, (), cf, 1, 120).get(0, "MISSING")
    model = run_driver(dexe, [], cf, 120).get(0, "MISSING")
    open(cf + ".v", "w").write(line + " ### " + impl + "\n")
    ver = run_driver(dexe, ["--validate"], cf + ".v", 120).get(0, "MISSING")
    print("input:            ", line)
    print("implementation:   ", impl)
    print("model:            ", model)
    print("verified checker on the implementation's answer:", ver)
    w = inter.oracle(line, impl, random.Random(1))
    print("oracle:           ", w if w else "no violation found")
    return 1 if (w or (model not in ("UNMODELLED",) and model != impl)) else 0
