"""C13 — fixed-width integers are arithmetic modulo 2^w; wrapped intervals over-approximate
the operations under wrap-around semantics."""
import vlib, wrapint

TRUSTED = [
    "Coq 8.16.1 kernel (coqc); no native_compute",
    "extraction: ExtrOcamlBasic only, no Extract Constant; OCaml 4.13.1; ocaml/wrapint_drv.ml + zio (zarith for decimal I/O)",
    "correspondence: gen/wrapint.py generator, harness/wrapint.cpp (public API of crab::wrapint and crab::domains::wrapped_interval<z_number>), line diff",
    "specification = Coq Z: x mod 2^w, Z.quot/Z.rem on the two's complement reading, floor division by 2^k for shifts, Z.land/lor/lxor",
    "oracle: python integers modulo 2^w (independent of the extracted code)",
]


def run(rep, tier, seed):
    rep.cov["trusted_base"] = TRUSTED
    rep.cov["rule"] = ("wrapint: exhaustive operand pairs for widths 1..4, boundary operands for every width 1..64 "
                       "x all operations, seeded random operands; a case is non-trivial when it did not abort and an "
                       "operand or the answer is non-zero; distinct by input line.  wrapped intervals: all (start,end) "
                       "pairs, top and bottom for widths 1..3 x all operators, pole-crossing and random intervals for "
                       "widths 4..64; non-trivial when no operand is bottom and the answer is neither bottom, top nor "
                       "an abort")
    rep.assumptions = [
        "model = hand-written mirror of lib/wrapint.cpp with the repairs fixes/wrapint-1..4, tied by differential testing only",
        "shift amounts of 64 or more are undefined behaviour in the C++ (uint64_t shifted by >= 64) and outside the theorems and generators",
        "binary operations on operands of different bitwidths are a checked error of the class (CRAB_ERROR), outside the generators",
        "wrapint(z_number) accepts int64_t values only (documented through fits_wrapint); unsigned big numbers >= 2^63 are rejected",
        "the string constructor is exercised on decimal digit strings of numbers below 2^64 only",
        "wrapped intervals: model = mirror of wrapped_interval_impl.hpp / lib/wrapped_interval.cpp with the repairs fixes/wrapint-5..10, tied by differential testing only",
        "wrapped intervals: both operands of a binary operation have the same bitwidth (or are top / bottom); "
        "widening_thresholds and the q_number instance are not modelled; the widening computes 1 << (w - 3) in type int "
        "(undefined for w >= 34): the model follows what x86-64 code does (count modulo 32, sign extension), which only "
        "affects when the widening jumps to top",
        "shift amounts >= 64 at bitwidths >= 7 (LShr/AShr/Shl) shift a 64-bit word by 64 or more in wrapint: the model returns an error "
        "there (C13_wv_lshr_amount_64), the generators reduce such amounts modulo 64; ZExt/SExt of a top interval is a CRAB_ERROR at class "
        "level only (the domain tests for top first)",
    ]
    vlib.prove(rep, extra_targets=["Extract/ExtractWrapint.vo"])
    main, err = wrapint.gen_wi(seed, tier)
    vlib.run_stream(rep, "wrapint", "wrapint", "wrapint", main, oracle=wrapint.oracle,
                    nontrivial=wrapint.nontrivial, key=wrapint.key)
    vlib.run_stream(rep, "wrapint-errors", "wrapint", "wrapint", err, oracle=wrapint.oracle,
                    nontrivial=wrapint.nontrivial, key=wrapint.key)
    main, err = wrapint.gen_wv(seed, tier)
    vlib.run_stream(rep, "wrapped-interval", "wrapint", "wrapint", main, oracle=wrapint.oracle,
                    nontrivial=wrapint.nontrivial, key=wrapint.key)
    vlib.run_stream(rep, "wrapped-interval-errors", "wrapint", "wrapint", err, oracle=wrapint.oracle,
                    nontrivial=wrapint.nontrivial, key=wrapint.key)
