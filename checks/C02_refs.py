"""C02 for reference assertions (oracle only, no model): streams fwd-refs-<dom>-oracle.

harness/refasserts.cpp runs intra_fwd_analyzer + intra_checker + assert_property_checker over the region domains of
/repo/tests/crab_dom.hpp (region_domain over split_dbm / intervals / flat_boolean x intervals / flat_boolean x
split_dbm) on the small CFG programs of gen/refprog.py: region_init, make_ref (distinct allocation sites), gep_ref
chains with constant and variable offsets, assume_ref, havoc, integer assignments / assumptions, 1-8 blocks with
branches, joins and loops, and assert_ref statements of every kind the reference_constraint factory offers (unary:
== != <= < >= > NULL; binary p REL q + k for the six relations, k positive, zero, negative).
Every verdict is judged against concrete executions enumerated by gen/refprog.py (see its header for the concrete
semantics and the rule for references with different bases):
   U (unreachable)  no enumerated execution reaches the assertion
   S (safe)         the condition holds on every enumerated execution that reaches it
   W may be spurious; E is not constrained by C02 (counted).
Per domain: hand-picked corpus, the scripted boundary sweep (p := make_ref(mem,16); q := gep_ref(p,4);
assert_ref(q REL p + k) and assert_ref(p REL q + k) for all REL and k in {-8,-2,0,2,4,6,8}, plus variants of it and
the unary constraints), then structured random programs.  An abort (CRAB_ERROR, crash, time limit) is a violation of
its own class.  Hits matching known_findings.json (property C02, `stream` glob, `line_regex`, `witness_regex`) are
reported as known findings.

Called from checks/C02.py:   C02_refs.streams(rep, tier, seed)
Command line:   python3 checks/C02_refs.py [--dom rgn-zones,rgn-itv] [--n 300] [--seed S] [--tier quick]
                python3 checks/C02_refs.py --dom rgn-zones --replay '<program line>' | <replay file>"""
import os, re, sys, time, zlib
from concurrent.futures import ThreadPoolExecutor
_V = os.path.dirname(os.path.dirname(os.path.abspath(__file__)))
for _p in ("bin", "gen", "checks"):
    if os.path.join(_V, _p) not in sys.path:
        sys.path.insert(0, os.path.join(_V, _p))
import vlib, refprog, fwddoms

HARNESS = "refasserts"
DOMAINS = [
    dict(name="rgn-zones", what="region_domain over split_dbm_domain (z_rgn_sdbm_t)"),
    dict(name="rgn-itv", what="region_domain over interval_domain (z_rgn_int_t)"),
    dict(name="rgn-bool-itv", what="region_domain over flat_boolean_numerical_domain<interval_domain> (z_rgn_bool_int_t)"),
    dict(name="rgn-bool-zones", what="region_domain over flat_boolean_numerical_domain<split_dbm_domain>"),
]
MAX_REPORTS = 2
NWORKERS = 4


def stream_name(dom):
    return "fwd-refs-%s-oracle" % dom


def sizes(tier):
    return 1500 if tier == "quick" else 20000


def programs(seed, tier, dom, n=None):
    return refprog.gen(seed * 31 + 11 * (zlib.crc32(dom.encode()) % 1000) + 700000, tier, n if n is not None else sizes(tier))


def judge(line, ans):
    if fwddoms.is_abort(ans):
        return "%s: the analysis aborted: %s" % (line, ans)
    return refprog.oracle(line, ans)


def run_domain(tier, seed, dom, exe, known, n=None, lines=None):
    name = dom["name"]
    stream = stream_name(name)
    st = {"cases": 0, "oracle_violations": 0, "aborts": 0, "distinct_nontrivial": 0, "known_finding_hits": 0}
    violations, known_hits = [], {}
    outd = os.path.join(vlib.VERIF, "out", "C02")
    replay = lines is not None
    lines = lines if lines is not None else programs(seed, tier, name, n)
    t0 = time.time()
    answers = fwddoms.run_cases(exe, name, lines, os.path.join(outd, stream + (".replay" if replay else "") + ".cases"))
    st["harness_s"] = round(time.time() - t0, 1)
    st["cases"] = len(lines)
    letters = {}
    kinds = {}            # verdicts per kind of constraint: "u" / "b:<rel>" -> letters
    safe_reached = unreach = 0
    nrep = {"oracle": 0, "abort": 0, "timeout": 0}
    exhaustive = runs = 0
    nontriv = set()
    t1 = time.time()
    for i, (l, a) in enumerate(zip(lines, answers)):
        if a == "SKIPPED":
            st["skipped_after_timeouts"] = st.get("skipped_after_timeouts", 0) + 1
            continue
        try:
            w = judge(l, a)
        except Exception as e:
            w = None
            st["oracle_errors"] = st.get("oracle_errors", 0) + 1
            st.setdefault("oracle_error_sample", "%r on %s" % (e, l[:300]))
            continue
        if not fwddoms.is_abort(a):
            V = refprog.parse_verdicts(a) or {}
            T, r, comp = refprog.truth(l)
            runs += r; exhaustive += bool(comp)
            P = refprog.parse(l)
            rcs = {s[2]: s[1] for b in P["blocks"] for s in b if s[0] == "rassert"}
            for aid, v in V.items():
                rc = rcs.get(aid)
                kk = "?" if rc is None else ("unary:" + rc[1] if rc[0] == "u" else "binary:" + rc[1])
                for ch in v:
                    letters[ch] = letters.get(ch, 0) + 1
                    kinds.setdefault(kk, {})
                    kinds[kk][ch] = kinds[kk].get(ch, 0) + 1
                safe_reached += ("S" in v and aid in T)
                unreach += "U" in v
        if not w:
            if not fwddoms.is_abort(a) and refprog.nontrivial(l, a):
                nontriv.add(l)
            continue
        cls = ("timeout" if "timeout (no answer)" in a else "abort") if fwddoms.is_abort(a) else "oracle"
        kn = fwddoms.match_known(known, stream, l, w)
        if kn:
            st["known_finding_hits"] += 1
            known_hits.setdefault(kn["what"], [0, w])[0] += 1
            continue
        if cls == "oracle":
            st["oracle_violations"] += 1
        else:
            st["aborts"] += 1
        nrep[cls] += 1
        if nrep[cls] <= MAX_REPORTS:
            head = {"abort": "FAILING INPUT (the forward analysis / assertion checker over the real %s domain aborts, no model involved): ",
                    "timeout": "FAILING INPUT (the forward analysis / assertion checker over the real %s domain gives no answer within the time limit, no model involved): ",
                    "oracle": "FAILING INPUT (property oracle on the verdicts of the assertion checker over the real %s domain, no model involved): "}[cls] % name
            text = (head + w + "\nstream=%s case=%d domain=%s (%s)\ninput: %s\nimplementation: %s\n"
                    "replay: python3 checks/C02_refs.py --dom %s --replay '<input>'\n" % (stream, i, name, dom["what"], l, a, name))
            violations.append(("%s-%s-%d" % (stream, cls, i), text, True))
    st["oracle_s"] = round(time.time() - t1, 1)
    st["distinct_nontrivial"] = len(nontriv)
    st["verdict_letters"] = letters
    st["verdicts_by_constraint_kind"] = {k: kinds[k] for k in sorted(kinds)}
    st["safe_verdicts_on_assertions_reached_by_executions"] = safe_reached
    st["unreachable_verdicts"] = unreach
    st["concrete_executions"] = runs
    st["programs_enumerated_exhaustively"] = exhaustive
    return st, violations, [(what, w, c) for what, (c, w) in known_hits.items()]


def streams(rep, tier, seed, only=None, n=None):
    t0 = time.time()
    replay_line = None
    if getattr(vlib, "REPLAY", None) is not None:
        m = re.match(r"fwd-refs-(.+)-oracle$", vlib.REPLAY[0])
        if not m or m.group(1) not in [d["name"] for d in DOMAINS]:
            return
        only, replay_line = [m.group(1)], [vlib.REPLAY[1]]
    doms = [d for d in DOMAINS if only is None or d["name"] in only]
    os.makedirs(os.path.join(vlib.VERIF, "out", "C02"), exist_ok=True)
    info = rep.cov.setdefault("reference_assertions", {})
    info["domains"] = {d["name"]: d["what"] for d in doms}
    info["programs_per_domain"] = "corpus (%d) + boundary sweep + %d structured random programs" % (len(refprog.CORPUS), n if n is not None else sizes(tier))
    info["rule"] = ("per domain: hand-picked corpus, scripted sweep (q = p + 4 built in 8 ways; assert_ref(q REL p + k), assert_ref(p REL q + k), all six REL, "
                    "k in {-8,-2,0,2,4,6,8}; the six unary constraints on references prepared in 13 ways), then structured random programs (diamonds, guards, "
                    "loops with a walking reference, fan-out of guarded assertions; region parameters varied); non-trivial = an assertion that concrete "
                    "executions reach is classified safe, or an assertion is classified unreachable")
    info["concrete_semantics"] = ("addresses are integers, NULL = 0, make_ref returns a fresh non-null base, gep adds the offset; bases of different allocations are "
                                  "100000 apart and their order is part of the enumerated non-determinism (so between different bases only == / != have a fixed truth "
                                  "value); executions enumerated depth-first over all choices (budget %d runs, then %d random runs)" % (refprog.MAXRUNS, refprog.NRANDOM))
    exe, err = vlib.build_harness(HARNESS)
    if err:
        rep.violation("fwd-refs-build", "reference assertions: %s" % err, False)
        for d in doms:
            rep.cov["streams"][stream_name(d["name"])] = {"cases": 0, "oracle_violations": 0, "aborts": 0, "distinct_nontrivial": 0}
        return
    known = [k for k in vlib.load_known().get("findings", []) if k.get("property") == "C02" and str(k.get("stream", "")).startswith("fwd-")]
    results = {}
    with ThreadPoolExecutor(NWORKERS) as ex:
        futs = {d["name"]: ex.submit(run_domain, tier, seed, d, exe, known, n, replay_line) for d in doms}
        for name, f in futs.items():
            try:
                results[name] = f.result()
            except Exception as e:
                import traceback
                results[name] = ({"cases": 0, "oracle_violations": 0, "aborts": 0, "distinct_nontrivial": 0},
                                 [("%s-error" % stream_name(name), "reference assertions over %s could not be run: %r\n%s"
                                   % (name, e, "".join(traceback.format_exception(type(e), e, e.__traceback__))[-1500:]), False)], [])
    known_all = {}
    for d in doms:
        st, viol, kn = results[d["name"]]
        sn = stream_name(d["name"])
        rep.cov["streams"][sn] = st
        rep.cov["evaluations"] += st["cases"]
        rep.cov["distinct_nontrivial"] = rep.cov.get("distinct_nontrivial", 0) + st["distinct_nontrivial"]
        for what, w, cnt in kn:
            kf = known_all.setdefault(what, {"streams": [], "first": "%s: %s" % (sn, w)})
            kf["streams"].append("%s (%d)" % (sn, cnt))
        for tag, text, wit in viol:
            rep.violation(tag, text, wit)
    for what, kf in known_all.items():
        rep.known_finding("%s [hits: %s; first hit: %s]" % (what, ", ".join(kf["streams"]), kf["first"][:1200]))
    info["wall_s"] = round(time.time() - t0, 1)
    if isinstance(rep.assumptions, list):
        rep.assumptions = [a for a in rep.assumptions if a != "boolean and reference assertions are outside the modelled fragment"]
        rep.assumptions.append("boolean and reference assertions are outside the modelled fragment (boolean assertions: streams fwd-bool-*-oracle; reference "
                               "assertions over the region domains: concrete oracle on generated programs, streams fwd-refs-<dom>-oracle)")
    tb = rep.cov.get("trusted_base")
    if isinstance(tb, list):
        tb.append("harness/refasserts.cpp (intra_fwd_analyzer + intra_checker + assert_property_checker over four region domains) and gen/refprog.py "
                  "(generator of programs with reference statements, concrete interpreter used as oracle)")


if __name__ == "__main__":
    import argparse, json
    ap = argparse.ArgumentParser()
    ap.add_argument("--dom", default=None)
    ap.add_argument("--n", type=int, default=None)
    ap.add_argument("--seed", type=int, default=20260925)
    ap.add_argument("--tier", default="quick")
    ap.add_argument("--replay", help="a program line, or a replay file holding 'input: <line>'")
    a = ap.parse_args()
    vlib.NCPU = min(vlib.NCPU, 6)
    if os.environ.get("REFS_PRIVATE_BUILD", "1") == "1":
        vlib.BUILD = os.path.join(vlib.VERIF, "build", "refs-scratch")       # exploration: a private build cache
    if a.replay:
        line = a.replay
        if os.path.exists(line):
            m = re.search(r"(?m)^input: (.*)$", open(line).read())
            line = m.group(1).strip() if m else open(a.replay).read().strip().split("\n")[0]
        os.makedirs(os.path.join(vlib.VERIF, "out", "C02"), exist_ok=True)
        exe, err = vlib.build_harness(HARNESS)
        if err:
            print(err); sys.exit(2)
        rc = 0
        for dn in (a.dom or ",".join(d["name"] for d in DOMAINS)).split(","):
            ans = fwddoms.run_cases(exe, dn, [line], os.path.join(vlib.VERIF, "out", "C02", "fwd-refs-%s-replay.cases" % dn), per_run=20)[0]
            w = judge(line, ans)
            T, runs, comp = refprog.truth(line)
            print("== %s\ninput:          %s\nimplementation: %s\nconcrete:       %d executions (exhaustive=%s) %s\noracle:         %s"
                  % (dn, line, ans, runs, comp, {k: "reached %d times, false on some: %s" % (v[0], v[2] is not None) for k, v in sorted(T.items())},
                     w if w else "no violation found"))
            rc = rc or (1 if w else 0)
        sys.exit(rc)
    rep = fwddoms._Rep("C02")
    rep.assumptions = []
    t = time.time()
    streams(rep, a.tier, a.seed, only=a.dom.split(",") if a.dom else None, n=a.n)
    for name, st in rep.cov["streams"].items():
        print(name, json.dumps(st)[:1500])
    for k in rep.k:
        print("KNOWN:", k[:600])
    for tag, text in rep.v:
        print("VIOLATION", tag)
        print("   " + "\n   ".join(text.split("\n")[:5]))
    print("wall %.1f s, %d evaluations, %d non-trivial, %d violations, %d known" % (time.time() - t, rep.cov["evaluations"], rep.cov["distinct_nontrivial"], len(rep.v), len(rep.k)))
    sys.exit(1 if rep.v else 0)
