"""C14 — the array domains never lose a value (array_smashing, array_adaptive)."""
import os, re, random, time
import vlib, arrays, domall

LEVEL = "proof"

TRUSTED = [
    "Coq 8.16.1 kernel (coqc); no native_compute",
    "extraction: ExtrOcamlBasic only, no Extract Constant; OCaml 4.13.1; ocaml/arrays_drv.ml + zio (zarith for decimal I/O)",
    "correspondence: gen/arrays.py (array histories; cell-algebra unit stream), harness/arrays.cpp "
    "(public API of array_smashing<interval_domain> and of array_adaptive_domain<interval_domain>; offset_map_t / "
    "cell_t / array_state / covers_all_offsets / m_array_map / m_cell_ghost_man of array_adaptive_domain reached "
    "with #define private public: the shape of every array (cells with their removed flag and whether they have a "
    "ghost variable, or the element size of a smashed array) is printed after every step), line diff",
    "the interval-domain layer of the model is the one of C03 (Dom/ItvDomain.v), its environment layer the total-map "
    "abstraction that C19 proves for separate_domain",
    "concrete semantics (Dom/ArraySmashSound.v cstep; gen/arrays.py oracle): scalars = mathematical integers, an array = "
    "partial map byte offset -> value, one element size per array, offsets non-negative multiples of it; the value of a "
    "cell that was never written is unknown (a state that reads one is not followed); array_init defines the cells "
    "lb, lb+sz, .. <= ub (theorem: any set of cells, all holding val)",
]
ASSUME = [
    "the models are hand-written mirrors of array_smashing.hpp (complete, with the repairs fixes/arrays-2,3) and of the "
    "cell algebra / decision table of array_adaptive.hpp + lib/array_adaptive_impl.cpp (with fixes/arrays-5), tied to the "
    "code by differential testing only",
    "is_strong_update is a promise of the client that the array has one cell (cfg.hpp): concrete executions that access a "
    "one-cell array at another offset have no successor state; generators set the flag only on such arrays",
    "word-level assumption documented by both domains: every access to an array uses its one element size (other sizes: no "
    "successor state in the theorem, not generated for the oracle)",
    "theorem on array_smashing<interval_domain>: histories without meet / narrowing (mirrored and corresponded, not proved: "
    "the property lists joins and widenings only); rename of one variable at a time and expand on arrays within their "
    "documented use (the new name is fresh); integer arrays only (bool / real arrays are not modelled)",
    "array_adaptive_domain<interval_domain>: mirror model Dom/ArrayAdapt.v (array states, ghost map, all transfer "
    "functions and lattice operations, the 4 parameters), tied to the code by the streams adapt-histories-* (state and "
    "array shapes after every step, 16 parameter settings); mirrored sub-language: histories without meet / narrowing "
    "(a cell can then keep its ghost variable without being in the offset map: the code hands out a new variable where "
    "the model has one fixed name per cell) and without cells at negative offsets (offset_t wraps): those are left to "
    "the oracle search.  The variable factory's fresh ghost names are modelled by one fixed name per (array, offset, size)",
    "theorems on the adaptive model (Dom/ArrayAdaptSound.v) are PARTIAL: side conditions hop_okA (word-level assumption "
    "checked on the abstract state: element size = the one of the array, aligned constant indexes, array_init with "
    "constant bounds, ranges that fit into max_array_size; no meet / narrowing / project / array rename / array expand), "
    "the hypothesis that every defined cell is tracked wherever an array is smashed (it cannot be dropped: "
    "C14_adaptive_smash_untracked_refuted, known finding), and for joins the well-formedness checks join_ok on the "
    "operands (executable; their preservation by the other operations is not proved).  For is_smashable = false no "
    "hypothesis on the executions is left (C14_adaptive_history_sound_nonsmashable_partial).  For is_smashable = true the "
    "invariant `every defined cell of an array that is not smashed is tracked` is carried through init / load / store / "
    "range store / numerical operations and through joins / widenings of values that track the same cells "
    "(C14_adaptive_history_sound_tracked_partial); where it is lost (top, forget / copy of arrays, joins of values that "
    "track different cells, a symbolic store that can only kill cells) the oracle search remains and reports the known "
    "finding",
    "which removed-flag survives when a cell is removed on one side only of an offset-map join/meet depends on the sharing "
    "optimisation of patricia merge: not modelled, not generated in the unit stream",
    "bases other than intervals (zones) and all parameter settings of the adaptive domain: oracle search only",
    "arrays of booleans (ARR_BOOL_TYPE, element size 1; array_smashing / array_adaptive_domain over "
    "flat_boolean_numerical_domain<interval_domain>; init / store of the constants and of boolean variables, strong / weak / "
    "range stores, loads, assume_bool, b := (linear constraint), copies, forget, joins, widenings): oracle search only "
    "(streams search-bool-*; gen/arrays.py oracle_bool: cells hold booleans, what the flat boolean component says about a "
    "variable must admit its concrete value); not modelled in Coq",
]

# parameter settings of array_adaptive: is_smashable, smash_at_nonzero_offset, max_smashable_cells, max_array_size
PARAMS_QUICK = ["1:1:64:64", "1:0:64:64", "0:0:64:64", "1:1:2:3", "0:0:2:2", "1:0:1:2"]
PARAMS_ALL = ["%d:%d:%d:%d" % (s, n, c, m) for s in (0, 1) for n in (0, 1)
              for (c, m) in ((1, 1), (1, 2), (2, 3), (3, 3), (4, 8), (64, 64))]
# the 16 settings of the mirrored stream adapt-histories: both flags x four (max_smashable_cells, max_array_size)
# pairs (the constructor of array_adaptive_domain_params rejects max_smashable_cells > max_array_size)
PARAMS_MIRROR = ["%d:%d:%d:%d" % (s, n, c, m) for s in (0, 1) for n in (0, 1)
                 for (c, m) in ((1, 2), (2, 3), (4, 8), (64, 64))]
# settings of the boolean-array search in the quick tier
PARAMS_BOOL_QUICK = ["1:1:64:64", "1:0:64:64", "0:0:64:64", "1:1:2:3", "0:1:1:2", "1:0:1:1"]
NEG_CELL = re.compile(r"[{,]-\d+:")


def const_sizes(line):
    """every element-size expression is a positive constant (otherwise CRAB_ERROR is the specified answer)"""
    for o in line.split(" ; ")[1:]:
        t = o.split()
        if not t:
            continue
        if t[0] in ("ainit", "astore", "arange"):
            e = t[3:6]
        elif t[0] == "aload":
            e = t[4:7]
        else:
            continue
        if e[0] != "E" or e[1] != "0" or int(e[2]) <= 0:
            return False
    return True


def shape_at_failure(line, ans, w):
    """when the failing step is a load from an array that the adaptive domain has smashed, say so"""
    m = re.search(r"step (\d+) \(aload (\d+) (\d+) (\d+) ", w)
    if not m:
        return w
    step, a = int(m.group(1)), int(m.group(4))
    ops = [o for o in line.split(" ; ")[1:]]
    parts = ans.split(" ; ")
    # answers are emitted for every op (queries included)
    if step - 1 < len(parts) and " # " in parts[step - 1]:
        sh = parts[step - 1].split(" # ", 1)[1]
        mm = re.search(r"A%d=(\S+)" % a, sh)
        # (with an unknown element size the load must forget its left-hand side: a wrong value
        #  there is not the known finding)
        if mm and re.match(r"S-?\d+$", mm.group(1)):
            return w + " [load from a smashed array of the adaptive domain: A%d=%s]" % (a, mm.group(1))
    return w


def shrink(exe, mode, line, oracle, kind, scratch, budget=30):
    ops = line.split(" ; ")
    head, body = ops[0], ops[1:]
    best = None
    size = max(1, len(body) // 2)
    rounds = 0
    while rounds < budget:
        rounds += 1
        cs = []
        i = 0
        while i < len(body):
            c = body[:i] + body[i + size:]
            if c:
                cs.append(c)
            i += size
        if not cs:
            break
        ls = [head + " ; " + " ; ".join(c) for c in cs]
        an = domall.run_cases(exe, mode, ls, scratch, timeout=120)
        hit = None
        for c, l, a in zip(cs, ls, an):
            w = oracle(l, a)
            if w and arrays.kind_of(w) == kind:
                hit = (c, w)
                break
        if hit:
            body, best = hit
            size = max(1, min(size, len(body) // 2))
        elif size > 1:
            size //= 2
        else:
            break
    return head + " ; " + " ; ".join(body), best


def search(rep, tier, seed, targets, nper):
    """oracle-only witness search on the real domains (no model involved)"""
    exe, err = vlib.build_harness("arrays")
    if err:
        rep.violation("search-build", "witness search: %s" % err, False)
        return
    known = [k for k in vlib.load_known().get("findings", []) if k.get("property") == "C14"]
    outd = os.path.join(vlib.VERIF, "out", "C14")
    os.makedirs(outd, exist_ok=True)
    for ti, (name, mode, opts) in enumerate(targets):
        stream = "search-" + name
        st = {"cases": 0, "oracle_violations": 0, "aborts": 0, "nontrivial": 0, "mode": mode}
        rep.cov["streams"][stream] = st
        adapt = mode.startswith("adapt")
        isbool = bool(opts.get("bool"))
        o2 = dict(opts); o2["meets"] = False
        # arrays of booleans: their own history language, generator and oracle (the model does not know them)
        oracle_f, nontrivial_f = (arrays.oracle_bool, arrays.nontrivial_bool) if isbool else (arrays.oracle, arrays.nontrivial)
        # the known finding of the adaptive domain is listed for the streams search-adapt-*
        kstream = ("search-adapt-" + name) if (isbool and adapt) else stream
        if adapt:
            o2["head"] = "abshape" if isbool else "ashape"
        if isbool:
            lines = [l for l in arrays.gen_bool(seed + 7001 + 101 * (ti + 1), tier, nper, o2) if const_sizes(l)]
        else:
            lines = [l for l in arrays.gen(seed + 101 * (ti + 1), tier, nper, o2) if const_sizes(l)]
        if opts.get("fullinit"):
            lines = [arrays.full_init(l) for l in lines]
        answers = domall.run_cases(exe, mode, lines, os.path.join(outd, stream + ".cases"))
        st["cases"] = len(lines)
        rep.cov["evaluations"] += len(lines)

        def orc(l, a):
            if a.startswith("ABORT") or a == "MISSING":
                return "step 0 (abort) of: %s: the domain aborted on an input inside the searched fragment: %s" % (l, a[:200])
            w = oracle_f(l, a)
            if w and isbool and "[untracked: " not in w:
                # the known finding needs a defined cell that the state had lost before the array was smashed: the
                # boolean oracle follows the concrete execution and says so; any other wrong load is a violation
                return w
            return shape_at_failure(l, a, w) if w else None
        buckets = {}
        for l, a in zip(lines, answers):
            if a.startswith("ABORT") or a == "MISSING":
                st["aborts"] += 1
            try:
                w = orc(l, a)
            except Exception as e:
                w = None
                st["oracle_errors"] = st.get("oracle_errors", 0) + 1
                st.setdefault("oracle_error_sample", "%r on %s" % (e, l[:200]))
            if w:
                st["oracle_violations"] += 1
                k = ("smashed-load" if "load from a smashed array" in w else "abort" if "aborted" in w else arrays.kind_of(w))
                buckets.setdefault(k, []).append((l, a, w))
            elif nontrivial_f(l, a):
                st["nontrivial"] += 1
        rep.cov["distinct_nontrivial"] += st["nontrivial"]
        for k, hits in sorted(buckets.items()):
            reported = set()
            for (l, a, w) in hits[:2]:
                l2, w2 = l, w
                if k != "abort":
                    l2, w2 = shrink(exe, mode, l, lambda x, y: orc(x, y), arrays.kind_of(w), os.path.join(outd, stream + ".shrink"))
                    w2 = w2 or w
                if l2 in reported:
                    continue
                reported.add(l2)
                kn = domall.match_known(known, "C14", kstream, l2, w2)
                if kn:
                    rep.known_finding("%s [%s, %d hit(s) of this class in the stream] input: %s" % (kn["what"], stream, len(hits), l2))
                    st["known"] = st.get("known", 0) + 1
                else:
                    tag = "%s-%s-%d" % (stream, re.sub(r"\W+", "_", k), len(reported))
                    rep.violation(tag, ("FAILING INPUT (property oracle on the answer of the real domain, no model involved): %s\n"
                                        "mode=%s stream=%s class=%s hits-of-this-class=%d\nshrunk history: %s\noriginal history: %s\n"
                                        "replay: build/impl-*/h-arrays-* --mode=%s <file with the history>\n")
                                  % (w2, mode, stream, k, len(hits), l2, l, mode), True)


def adapt_histories(rep, tier, seed):
    """array_adaptive_domain<interval_domain> against its mirror model (Dom/ArrayAdapt.v), state and shape of
    every array after every step, for the 16 parameter settings.  Mirrored sub-language: histories without
    meet / narrowing (after them a cell can keep its ghost variable without being in the offset map: the code
    then hands out a new variable where the model has a fixed name) and without cells at negative offsets
    (offset_t wraps them to huge unsigned numbers).  Both are left to the oracle search."""
    quick = tier == "quick"
    known = [k for k in vlib.load_known().get("findings", []) if k.get("property") == "C14"]
    drv, err = vlib.build_driver("arrays")
    if err:
        rep.violation("adapt-histories-driver", "model driver arrays: %s" % err, False)
        return
    outd = os.path.join(vlib.VERIF, "out", "C14")
    os.makedirs(outd, exist_ok=True)
    nstd, nmix = (600, 200) if quick else (2500, 1000)
    skipped = 0
    for pi, p in enumerate(PARAMS_MIRROR):
        name = "adapt-histories-" + p.replace(":", "_")
        lines = arrays.gen(seed + 31 * (pi + 1), tier, nstd, {"meets": False, "head": "ashape", "corpus": pi % 4 == 0})
        # element sizes other than the one of the array, constant offsets that are not multiples of it
        lines += arrays.gen(seed + 977 + pi, tier, nmix, {"meets": False, "head": "ashape", "mixsz": True, "corpus": False})
        if vlib.REPLAY is None:
            cf = os.path.join(outd, name + ".pre.cases")
            with open(cf, "w") as f:
                f.write("\n".join(lines) + "\n")
            rc, out = vlib.sh([drv, "--mode=adapt-itv:" + p, cf], timeout=900)
            neg = set()
            for l in out.split("\n"):
                if l.startswith("R ") and (NEG_CELL.search(l) or " NEGATIVE-OFFSET " in l[:40]):
                    neg.add(int(l.split(" ", 2)[1]))
            skipped += len(neg)
            lines = [l for i, l in enumerate(lines) if i not in neg]

        def orc(line, a, rng=None, _p=p):
            if a.startswith("ABORT") or a == "MISSING":
                return None
            w = arrays.oracle(line, a)
            if not w:
                return None
            w = shape_at_failure(line, a, w)
            kn = domall.match_known(known, "C14", "search-adapt-itv-" + _p.replace(":", "_"), line, w)
            if kn:
                rep.known_finding("%s [adapt-histories, mode adapt-itv:%s] input: %s" % (kn["what"], _p, line))
                return None
            return w
        vlib.run_stream(rep, name, "arrays", "arrays", lines, oracle=orc, oracle_all=False,
                        nontrivial=arrays.nontrivial, key=lambda l: "history", extra_args=("--mode=adapt-itv:" + p,))
    rep.cov.setdefault("adapt_histories", {})["skipped_negative_offsets"] = skipped
    rep.cov["adapt_histories"]["settings"] = PARAMS_MIRROR


def run(rep, tier, seed):
    rep.cov["trusted_base"] = TRUSTED
    rep.cov["rule"] = ("array histories: corpus of past failures, then seeded random histories (6-28 operations over 2-3 registers, "
                       "3-5 scalars, 1-3 arrays; one element size per program; constant and symbolic offsets; one-cell arrays with "
                       "strong updates); non-trivial = some load returned a value that is neither bottom nor top; distinct by input "
                       "line.  cell algebra: corpus aimed at the case splits (scan of get_overlap_cells, largest-cell rule, limits of "
                       "the decision table), then random maps with uniform and mixed cell sizes; non-trivial = some query returned a "
                       "non-empty cell set")
    rep.assumptions = ASSUME
    vlib.prove(rep, extra_targets=["Extract/ExtractArrays.vo"])
    quick = tier == "quick"
    # 1. array_smashing<interval_domain> against the model, with the oracle on every answer
    lines = arrays.gen(seed, tier, 2500 if quick else 30000, {"meets": False})
    vlib.run_stream(rep, "smash-histories", "arrays", "arrays", lines, oracle=arrays.oracle,
                    nontrivial=arrays.nontrivial, key=lambda l: "history", extra_args=("--mode=smash-itv",))
    # the same with meets / narrowings: mirrored, outside the property's list of operations (no oracle)
    lines = arrays.gen(seed + 1, tier, 1200 if quick else 10000, {"meets": True, "corpus": False})
    vlib.run_stream(rep, "smash-histories-meet", "arrays", "arrays", lines, oracle=None,
                    nontrivial=arrays.nontrivial, key=lambda l: "history", extra_args=("--mode=smash-itv",))
    # 2. cell algebra and decision table of array_adaptive against ArrayAdaptCore
    lines = arrays.gen_cells(seed, tier, 3000 if quick else 40000)
    vlib.run_stream(rep, "cell-algebra", "arrays", "arrays", lines, oracle=None,
                    nontrivial=arrays.cells_nontrivial, key=lambda l: "cells", extra_args=("--mode=cells",))
    # 3. array_adaptive_domain<interval_domain> against the mirror model, all 16 parameter settings
    t0 = time.time()
    adapt_histories(rep, tier, seed)
    rep.cov.setdefault("adapt_histories", {})["wall_s"] = round(time.time() - t0, 1)
    # 4. oracle search on the real domains
    t0 = time.time()
    params = PARAMS_QUICK if quick else PARAMS_ALL
    targets = [("smash-zones", "smash-zones", {})]
    targets += [("adapt-itv-" + p.replace(":", "_"), "adapt-itv:" + p, {}) for p in params]
    targets += [("adapt-zones-" + p.replace(":", "_"), "adapt-zones:" + p, {}) for p in (params[:2] if quick else params)]
    # arrays that are initialised in every register before anything else: loads from smashed arrays are checked too
    targets += [("adapt-fullinit-" + p.replace(":", "_"), "adapt-itv:" + p, {"fullinit": True, "corpus": False})
                for p in (["1:1:64:64", "1:0:64:64"] if quick else ["1:1:64:64", "1:0:64:64", "1:1:8:64", "1:0:4:64"])]
    search(rep, tier, seed, targets, 600 if quick else 3000)
    rep.cov.setdefault("search", {})["wall_s"] = round(time.time() - t0, 1)
    rep.cov["search"]["targets"] = [t[0] for t in targets]
    # 5. arrays of booleans (the boolean branches of do_update / array_load / array_init / do_assign) over
    #    flat_boolean_numerical_domain<interval_domain>: oracle search only
    t0 = time.time()
    bparams = PARAMS_BOOL_QUICK if quick else PARAMS_ALL
    btargets = [("bool-smash", "smash-bool", {"bool": True})]
    btargets += [("bool-adapt-" + p.replace(":", "_"), "adapt-bool:" + p, {"bool": True}) for p in bparams]
    for k in arrays.BSTATS:
        arrays.BSTATS[k] = 0
    search(rep, tier, seed, btargets, 300 if quick else 5000)
    rep.cov["search_bool"] = {"wall_s": round(time.time() - t0, 1), "targets": [t[0] for t in btargets],
                              "oracle_saw": dict(arrays.BSTATS),
                              "rule": "boolean-array histories (abhist / abshape of harness/arrays.cpp): hand-picked corpus, then "
                                      "seeded histories that start with a shape aimed at one case split (weak store after init with "
                                      "the other constant, strong then weak store on a one-cell array, store of a variable with a known "
                                      "value, range store and loads inside / outside, join of registers with different contents, "
                                      "constant-index cells then a symbolic store) followed by 3-18 random operations, and loops with "
                                      "widening; non-trivial = some load returned true or false"}


def replay(path):
    """re-run one recorded case on both sides"""
    txt = open(path).read()
    m = re.search(r"(?m)^(?:input|shrunk history): (.*)$", txt)
    mm = re.search(r"(?m)^mode=(\S+)", txt)
    if not m:
        print("no input line in", path)
        return 2
    line = m.group(1)
    mode = mm.group(1) if mm else ("cells" if line.startswith("cells") else "smash-itv")
    ms = re.search(r"(?m)^stream=adapt-histories-(\S+)", txt)
    if ms and not mm:
        mode = "adapt-itv:" + ms.group(1).replace("_", ":")
    d = os.path.join(vlib.VERIF, "out", "C14")
    os.makedirs(d, exist_ok=True)
    cf = os.path.join(d, "replay.cases")
    with open(cf, "w") as f:
        f.write(line + "\n")
    exe, err = vlib.build_harness("arrays")
    if err:
        print(err); return 2
    rc, out = vlib.sh([exe, "--mode=" + mode, cf])
    print("implementation:", out.strip())
    if mode in ("smash-itv", "cells") or mode.startswith("adapt-itv"):
        drv, err = vlib.build_driver("arrays")
        if not err:
            rc, out = vlib.sh([drv, "--mode=" + mode, cf])
            print("model:", out.strip())
    if not line.startswith("cells"):
        rc, out = vlib.sh([exe, "--mode=" + mode, cf])
        a = [l for l in out.split("\n") if l.startswith("R 0 ")]
        orc = arrays.oracle_bool if line.startswith("ab") else arrays.oracle
        print("oracle:", orc(line, a[0][4:]) if a else "no answer (abort)")
    return 0
