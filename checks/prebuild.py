"""setup: build the whole Coq development, the extracted drivers, libCrab and harnesses."""
import os, glob, vlib
def run():
    rc, out = vlib.coq_make([], timeout=7200)
    if rc != 0:
        # property files are built with -k: a broken file must not break the others
        print(out[-3000:])
    ok = True
    for f in sorted(glob.glob(os.path.join(vlib.VERIF, "ocaml", "*_drv.ml"))):
        name = os.path.basename(f)[:-7]
        exe, err = vlib.build_driver(name)
        if err:
            print(err); ok = False
    d, err = vlib.build_lib()
    if err:
        print(err); ok = False
    names = [os.path.basename(f)[:-4] for f in glob.glob(os.path.join(vlib.VERIF, "harness", "*.cpp"))]
    for n, (exe, err) in vlib.build_harnesses(names).items():
        if err:
            print(err); ok = False
    return 0 if ok else 1
