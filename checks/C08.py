"""C08 — scalar value abstractions are sound, interval arithmetic is tight."""
import vlib, scalar

TRUSTED = [
    "Coq 8.16.1 kernel (coqc); no native_compute",
    "extraction: ExtrOcamlBasic only, no Extract Constant; OCaml 4.13.1; ocaml/scalar_drv.ml + zio (zarith for decimal I/O)",
    "correspondence: gen/scalar.py generator, harness/scalar.cpp (public API of ikos::interval<z_number>), line diff",
    "concrete semantics of the operators = Coq Z (Z.quot/Z.rem truncating, Z.land/lor/lxor two's complement, shifts as * 2^k and floor / 2^k)",
]

def run(rep, tier, seed):
    rep.cov["trusted_base"] = TRUSTED
    rep.cov["rule"] = ("boundary pool x all operators + seeded random operand pairs; a case is non-trivial "
                       "when both operands are non-bottom and the answer is neither bottom nor top; distinct by input line")
    rep.assumptions = ["model = hand-written mirror of interval_impl.hpp / lib/interval.cpp, tied by differential testing only",
                       "non-well-formed intervals such as [+oo,+oo] are outside the generators"]
    vlib.prove(rep)
    lines = scalar.gen(seed, tier)
    vlib.run_stream(rep, "scalar", "scalar", "scalar", lines, oracle=scalar.oracle,
                    nontrivial=scalar.nontrivial)
    import C08_scalars2
    C08_scalars2.streams(rep, tier, seed)
