"""C11 — backward analysis returns necessary preconditions."""
import os, random, vlib, cfgprog, bwdcommon

def validate_bwd(rep, name, lines, impl):
    dexe, err = vlib.build_driver("fwditv")
    if err:
        rep.violation(name + "-driver", err, False); return
    d = os.path.join(vlib.VERIF, "out", rep.prop)
    vf = os.path.join(d, name + ".validate")
    idx = [i for i in range(len(lines)) if impl.get(i) and impl[i] not in ("ABORT", "MISSING")]
    with open(vf, "w") as f:
        for i in idx:
            f.write(lines[i] + " ### " + impl[i].split(" ; checks=")[0] + "\n")
    rc, out = vlib.sh([dexe, "--bwd", "--validate", vf], timeout=900)
    res = {}
    for l in out.split("\n"):
        if l.startswith("R "):
            sp = l.split(" ", 2); res[int(sp[1])] = sp[2] if len(sp) > 2 else ""
    bad = [idx[j] for j in range(len(idx)) if res.get(j) != "ok"]
    rep.cov["streams"][name] = {"cases": len(idx), "validated_by_verified_checker": len(idx) - len(bad), "rejected": len(bad)}
    rep.cov["evaluations"] += len(idx)
    rng = random.Random(rep.seed)
    import re
    known = [k for k in vlib.load_known().get("findings", []) if k.get("property") == "C11"]
    # inputs of a recorded finding are reported (as KNOWN-FINDING) by the correspondence stream
    bad = [i for i in bad if not any(re.search(k["line_regex"], lines[i]) for k in known)]
    for i in bad[:3]:
        w = cfgprog.oracle_bwd(lines[i], impl[i], rng)
        text = ("the Coq-verified checker of precondition tables (theorems C11_error_tables_sound / C11_good_tables_sound) rejects the "
                "implementation's table\ninput: %s\nimplementation: %s\n" % (lines[i], impl[i]))
        if w:
            text = "FAILING INPUT: " + w + "\n" + text
        rep.violation("%s-%d" % (name, i), text, bool(w))

def run(rep, tier, seed):
    rep.cov["trusted_base"] = [
        "Coq 8.16.1 kernel (coqc); no native_compute (vm_compute in one Example)",
        "extraction: ExtrOcamlBasic only; ocaml/fwditv_drv.ml --bwd (parser, WTO of the reversed CFG via the C07 model, engine + backward transformer model, verified table checker)",
        "harness/bwditv.cpp: necessary_preconditions_fixpoint_iterator<cfg_ref, interval_domain> with forward invariants from intra_fwd_analyzer, on real crab CFGs",
        "gen/cfgprog.py: program generator and concrete interpreter (oracle: states on executions that go on to fail an assertion / reach a final state)",
    ]
    rep.cov["rule"] = ("structured random programs with an exit block and assertions (no select, no self-referencing linear assignment), error and "
                       "good mode, with and without forward invariants, delay 1-2, descending 0-2; non-trivial = some block has a precondition that is neither bottom nor top")
    rep.assumptions = ["theorems are about the model; the implementation's tables are compared with the model's and re-validated by the verified checker on generated programs",
                       "select and x := e(x) in the backward transformer: mirror + oracle only"]
    vlib.prove(rep)
    lines = bwdcommon.gen(seed + 11, 350 if tier == "quick" else 10000)
    r = vlib.run_stream(rep, "bwd-intervals", "bwditv", "fwditv", lines, oracle=cfgprog.oracle_bwd,
                        nontrivial=cfgprog.nontrivial_bwd, key=lambda l: "program", extra_args=["--bwd"])
    if r:
        validate_bwd(rep, "bwd-intervals-validated", lines, r[0])
    # statements outside the theorems (select, x := e(x)): mirror + oracle only
    lines2 = bwdcommon.gen(seed + 111, 250 if tier == "quick" else 8000, all_stmts=True)
    vlib.run_stream(rep, "bwd-intervals-all-statements", "bwditv", "fwditv", lines2, oracle=cfgprog.oracle_bwd,
                    nontrivial=cfgprog.nontrivial_bwd, key=lambda l: "program", extra_args=["--bwd"])
    import C11_doms; C11_doms.streams(rep, tier, seed)
