"""program streams for the backward analysis (C11) and the forward+backward verdicts (C02)"""
import random, cfgprog

# forward+backward only: known finding (use_refined_invariants reports reachable, safe assertions as unreachable)
FB_CORPUS = [
    # executions start at another block than the CFG entry: dominators were computed from the wrong block (fixed defect fwdbwd-2)
    "cfg 3 1 2 mode=error fwd=1 delay=1 desc=1 fb=1 entry=2 nasserts=1 | B 0 assign 0 E 0 0 | B 1 | B 2 assert C le E 1 -1 0 1 1 | E 0 1 1 2",
    "cfg 2 2 1 mode=error fwd=0 delay=1 desc=1 fb=1 refined=1 maxref=5 nasserts=1 | B 0 assign 0 E 0 2 ; assert C ne E 1 1 0 1 1 | B 1 assume C lt E 1 2 0 2 ; assign 0 E 1 1 1 -7 | E 0 1",
    # an assertion in a block that cannot reach the exit was discharged as safe (fixed defect)
    "cfg 4 1 3 mode=error fwd=1 delay=2 desc=1 fb=1 nasserts=1 | B 0 assign 0 E 0 0 | B 1 assert C le E 1 -1 0 1 1 | B 2 assign 0 E 0 2 | B 3 | E 0 1 0 2 2 3",
]

CORPUS = [
    # known finding (C11): the backward analysis starts at the exit block and ignores assertions in blocks
    # that cannot reach it (option deadend=1 marks such programs; the harness ignores the option)
    "cfg 4 1 3 mode=error fwd=1 delay=2 desc=1 deadend=1 fb=1 nasserts=1 | B 0 assign 0 E 0 0 | B 1 assert C le E 1 -1 0 1 1 | B 2 assign 0 E 0 2 | B 3 | E 0 1 0 2 2 3",
    # backward division (fixed defect): y := 5 | 1 ; x := y / 2 ; assert(x != 2)
    "cfg 5 2 4 mode=error fwd=1 fb=1 nasserts=1 | B 0 | B 1 assign 1 E 0 5 | B 2 assign 1 E 0 1 | B 3 arith sdiv 0 1 k 2 ; assert C ne E 1 1 0 -2 1 | B 4 | E 0 1 0 2 1 3 2 3 3 4",
    "cfg 2 2 1 mode=error fwd=1 | B 0 assume C le E 1 -1 1 1 ; assume C le E 1 1 1 -5 ; arith sdiv 0 1 k 2 ; assert C ne E 1 1 0 -2 1 | B 1 | E 0 1",
]

SELECT_CORPUS = [
    # select whose left-hand side occurs in its own condition; x := f(x)
    "cfg 2 1 1 mode=error fwd=1 bwdcheck=0 nasserts=1 | B 0 select 0 C le E 1 -1 0 -1 E 0 0 E 0 5 | B 1 assert C ne E 1 1 0 -5 1 | E 0 1",
    "cfg 2 2 1 mode=error fwd=0 bwdcheck=0 nasserts=1 | B 0 assign 0 E 2 2 0 1 1 3 | B 1 assert C le E 1 1 0 -4 1 | E 0 1",
]

def gen(seed, n, fb=False, modes=("error", "error", "good"), all_stmts=False):
    rng = random.Random(seed)
    lines = [c if fb else c.replace(" fb=1", "") for c in CORPUS]
    if fb:
        lines = FB_CORPUS + lines
    if all_stmts:
        lines = list(SELECT_CORPUS)
    for i in range(n):
        h, b, e, na = cfgprog.gen_program(rng, {"asserts": True, "bwd_safe": not all_stmts, "maxblocks": 9,
                                                "more_select": all_stmts})
        mode = "error" if fb else rng.choice(modes)
        dead = False
        if fb and rng.random() < 0.4:
            # blocks that cannot reach the exit block (abort-like ends), with an assertion
            for _ in range(rng.randint(1, 2)):
                src = rng.randrange(len(b))
                na += 1
                c = cfgprog.gen_cst(rng, int(h.split()[2]), kinds=("le", "le", "eq", "ne", "lt"), small=True, maxterms=2)
                b.append(["assert %s %d" % (cfgprog.fmt_cst(c), na)])
                e.append((src, len(b) - 1))
            hh = h.split(); hh[1] = str(len(b)); h = " ".join(hh)
            dead = True
        opts = [("mode", mode), ("fwd", rng.choice([0, 1, 1])), ("delay", rng.choice([1, 2])), ("desc", rng.choice([0, 1, 2]))]
        if fb:
            opts += [("fb", 1), ("refined", rng.choice([0, 0, 1])), ("maxref", rng.choice([5, 5, 1, 2]))]
        if all_stmts:
            opts += [("bwdcheck", 0)]
        if fb and rng.random() < 0.2:
            # the executions start at another block (reachable from the CFG entry)
            succ = {}
            for a_, b_ in e:
                succ.setdefault(a_, []).append(b_)
            reach = {0}; work = [0]
            while work:
                v = work.pop()
                for x in succ.get(v, []):
                    if x not in reach:
                        reach.add(x); work.append(x)
            opts += [("entry", rng.choice(sorted(reach)))]
        if dead:
            opts += [("deadend", 1)]
        opts += [("nasserts", na)]
        extra = []
        if mode == "good":
            nv = int(h.split()[2]); v = rng.randrange(nv)
            extra.append("G C le E 1 1 %d %d" % (v, -rng.randint(0, 10)))
        lines.append(cfgprog.fmt_program(h, b, e, opts, extra))
    return lines
