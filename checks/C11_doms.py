"""C11 over other domains than intervals (oracle only, no model): streams bwd-<dom>-oracle.

harness/bwddoms{1,2,3}.cpp run necessary_preconditions_fixpoint_iterator<cfg_ref, Dom> (error and good mode, with and
without the forward invariants of intra_fwd_analyzer<cfg_ref, Dom>, the options of harness/bwditv.cpp) for --mode=<dom>
on the textual CFG programs of gen/cfgprog.py and print, per block, the precondition through at(v) (the table format of
bwditv.cpp) and, as a second view, its to_linear_constraint_system().  Two concrete oracles judge every answer:
  cfgprog.oracle_bwd   (the oracle of the interval stream; programs without boolean statements)
  oracle_ext           (here) the same property with the interpreter for boolean statements (cfgprog.exec_stmt_ext: a
                       false `bassert` is an assertion failure), initial stores that also lie close together (relational
                       guards), and every state of an execution that goes on to fail an assertion / to finish the exit
                       block in a final state must also satisfy every exported constraint of its block's precondition.
Programs per domain (programs()): a scripted corpus; `guard; x := ...; assert(relation)` shapes (guarded_programs: the
backward transformers of relational domains only matter under a relational guard); boolean programs whose blocks
carry nothing but a boolean assertion (bool_programs); the random programs of the interval streams (bwdcommon.gen, all
statements); the join-built boxes of fwddoms.relational_programs; boolean statements inserted at random places.
An abort (CRAB_ERROR, crash, no answer within the time limit) is a violation of its own class.  Hits on inputs of a
recorded C11 finding (known_findings.json, `line_regex`: programs with dead-end blocks) are reported as known findings,
anything else as a violation (at most 2 per domain and class; the first one is reduced with fwddoms.shrink).

Called from checks/C11.py:   C11_doms.streams(rep, tier, seed)
Command line (exploration / replay):
  python3 checks/C11_doms.py [--dom zones,oct] [--n 200] [--seed S] [--tier quick]
  python3 checks/C11_doms.py --dom zones --replay '<program line>' [--shrink]"""
import os, re, sys, time, random, zlib, fnmatch, threading
from concurrent.futures import ThreadPoolExecutor
_V = os.path.dirname(os.path.dirname(os.path.abspath(__file__)))
for _p in ("bin", "gen", "checks"):
    if os.path.join(_V, _p) not in sys.path:
        sys.path.insert(0, os.path.join(_V, _p))
import vlib, cfgprog, bwdcommon, fwddoms
from domhist import holds, in_itv, fmt_cst

PROP = "C11"
DOMAINS = [
    dict(name="zones", tu="bwddoms1", what="split_dbm_domain, DefaultParams", rel=True),
    dict(name="sparse", tu="bwddoms1", what="sparse_dbm_domain", rel=True),
    dict(name="bool-zones", tu="bwddoms1", what="flat_boolean_numerical_domain<split_dbm_domain>", rel=True, bools=True),
    dict(name="oct", tu="bwddoms2", what="split_oct_domain", rel=True),
    dict(name="term-itv", tu="bwddoms2", what="term_domain over interval_domain"),
    dict(name="term-zones", tu="bwddoms2", what="term_domain over split_dbm_domain", rel=True),
    dict(name="disitv", tu="bwddoms3", what="dis_interval_domain"),
    dict(name="bool-itv", tu="bwddoms3", what="flat_boolean_numerical_domain<interval_domain>", bools=True),
    # backward operations are stubs (known finding): only the recorded inputs, so that the finding is reported on every run
    dict(name="pow-itv", tu="bwddoms3", what="powerset_domain<interval_domain> (backward operations are stubs)", corpus=True),
]
# inputs of the recorded finding "domains whose backward_assign / backward_apply are stubs" (known_findings.json)
STUB_CORPUS = [
    "cfg 2 3 1 mode=good fwd=1 nasserts=0 | B 0 arith sub 2 2 k 1 | B 1  | E 0 1 | G C le E 1 1 2 10",
    "cfg 2 3 1 mode=good fwd=0 nasserts=0 | B 0 arith add 2 2 k 3 | B 1  | E 0 1 | G C le E 1 -1 2 5",
    "cfg 2 2 1 mode=error fwd=0 nasserts=1 | B 0 assign 0 E 1 1 0 -4 ; assert C le E 1 1 0 0 1 | B 1  | E 0 1",
]
EXCLUDED = {
    "interval_domain": "covered by the model-backed streams bwd-intervals* of C11",
    "array_adaptive / array_smashing / region_domain": "no array / region statements in the textual CFG language",
    "powerset_domain, fixed_tvpi_domain, lookahead_widening_domain, numerical_packing_domain, uf_domain, value_partitioning_domain, "
    "wrapped_interval_domain, array_adaptive, array_smashing": "backward_assign / backward_apply of these domains are stubs (CRAB_WARN '... does "
    "not implement backward operations', the value is left unchanged): necessary preconditions over them are unsound by construction, e.g. "
    "--mode=pow-itv (harness/bwddoms3.cpp) on 'cfg 2 3 1 mode=good fwd=1 nasserts=0 | B 0 arith sub 2 2 k 1 | B 1  | E 0 1 | G C le E 1 1 2 10' "
    "reports z <= -10 at b0 although z = -9 reaches the exit with z <= -10",
    "congruences, sign / constant": "not instantiated here (forward streams: checks/fwddoms.py)",
}
NWORKERS = 6
MAX_REPORTS = 2          # per domain and class (oracle / abort / timeout)
HAS_BOOL = fwddoms.HAS_BOOL


def stream_name(dom):
    return "bwd-%s-oracle" % dom


def sizes(tier):
    """base number n of generated programs per domain (see programs())"""
    return 100 if tier == "quick" else 1200


# ---------------------------------------------------------------- programs

def _c(kind, terms, k):
    return fmt_cst((kind, (terms, k)))


def _prog(blocks, edges, nv, exit_block, mode, fwd, extra_opts=(), finals=None, delay=1, desc=1):
    na = sum(1 for b in blocks for s in b if s.startswith(("assert ", "bassert ")))
    opts = [("mode", mode), ("fwd", fwd), ("delay", delay), ("desc", desc)] + list(extra_opts) + [("nasserts", na)]
    extra = ["G " + " ".join(finals)] if (mode == "good" and finals) else []
    return cfgprog.fmt_program("cfg %d %d %d" % (len(blocks), nv, exit_block), blocks, edges, opts, extra)


X_LE_Y = _c("le", [(1, 0), (-1, 1)], 0)      # x - y <= 0


def scripted():
    """hand-made programs, run on every domain, error mode without and with forward invariants"""
    out = []
    for fwd in (0, 1):
        # assume(x <= y); x := 5; assert(x <= y)          fails from every x <= y <= 4, e.g. x = y = -4
        out.append(_prog([["assume " + X_LE_Y, "assign 0 E 0 5", "assert %s 1" % X_LE_Y], []], [(0, 1)], 2, 1, "error", fwd))
        # assume(x <= y); x := x + 2; assert(x <= y)      fails from y - 1 <= x <= y, e.g. x = y = -4 (both statement forms)
        out.append(_prog([["assume " + X_LE_Y, "arith add 0 0 k 2", "assert %s 1" % X_LE_Y], []], [(0, 1)], 2, 1, "error", fwd))
        out.append(_prog([["assume " + X_LE_Y, "assign 0 E 1 1 0 2", "assert %s 1" % X_LE_Y], []], [(0, 1)], 2, 1, "error", fwd))
        # the same over three blocks (the fixpoint iterator carries the relation)
        out.append(_prog([["assume " + X_LE_Y], ["assign 0 E 0 5"], ["assert %s 1" % X_LE_Y], []], [(0, 1), (1, 2), (2, 3)], 2, 3, "error", fwd))
        out.append(_prog([["assume " + X_LE_Y], ["arith add 0 0 k 2"], ["assert %s 1" % X_LE_Y], []], [(0, 1), (1, 2), (2, 3)], 2, 3, "error", fwd))
        # x := y + z, x := y - z, x := y * 3 under a guard; assert(x - y <= 1)
        for st in ("arith add 0 1 v 2", "arith sub 0 1 v 2", "arith mul 0 1 k 3", "assign 0 E 2 1 1 1 2 0", "assign 0 E 2 1 1 -1 2 0"):
            out.append(_prog([["assume " + X_LE_Y, "assume " + _c("le", [(1, 2), (-1, 1)], 0), st, "assert %s 1" % _c("le", [(1, 0), (-1, 1)], -1)], []],
                             [(0, 1)], 3, 1, "error", fwd))
        # good mode: assume(x <= y); x := 5; exit with x <= y      reached from every x <= y, y >= 5
        out.append(_prog([["assume " + X_LE_Y, "assign 0 E 0 5"], []], [(0, 1)], 2, 1, "good", fwd, finals=[X_LE_Y]))
        out.append(_prog([["assume " + X_LE_Y, "arith add 0 0 k 2", "assert %s 1" % X_LE_Y], []], [(0, 1)], 2, 1, "good", fwd, finals=[_c("le", [(1, 1)], -3)]))
        # b := (x <= 5) | assert(b) |        the only assertion is a boolean one, its block starts from a bottom postcondition:
        # fails from x = 6, 7, ...
        out.append(_prog([["bassign 0 " + _c("le", [(1, 0)], -5)], ["bassert 0 1"], []], [(0, 1), (1, 2)], 1, 2, "error", fwd))
        out.append(_prog([["bassign 0 " + _c("le", [(1, 0)], -5), "bassert 0 1"], []], [(0, 1)], 1, 1, "error", fwd))
        out.append(_prog([["bassign 0 " + _c("le", [(1, 0)], -5)], ["bnot 1 0"], ["bassert 1 1"], [], []], [(0, 1), (1, 2), (2, 3), (3, 4)], 1, 4, "error", fwd))
        # one branch with a boolean assertion only, one with a numerical one
        out.append(_prog([["bassign 0 " + _c("le", [(1, 0), (-1, 1)], 0)], ["bassert 0 1"], ["assert %s 2" % _c("le", [(1, 1)], -3)], []],
                         [(0, 1), (0, 2), (1, 3), (2, 3)], 2, 3, "error", fwd))
        out.append(_prog([["bassign 0 " + _c("le", [(1, 0)], -5)], ["bassert 0 1"], []], [(0, 1), (1, 2)], 1, 2, "good", fwd, finals=[_c("le", [(-1, 0)], 2)]))
    return out


def _rel_cst(rng, nv, kinds=("le", "le", "le", "lt", "eq")):
    """a constraint between two variables: x - y <= k and friends"""
    a, b = rng.sample(range(nv), 2)
    return (rng.choice(kinds), ([(1, a), (-1, b)], rng.choice([0, 0, 0, 1, -1, 2, -2, 3, -5])))


def _bound_cst(rng, nv):
    v = rng.randrange(nv)
    s = rng.choice([1, -1])
    return ("le", ([(s, v)], rng.choice([0, 1, -1, 3, -3, 5, -5, 10, -10])))


def _assignment(rng, nv):
    x = rng.randrange(nv)
    others = [v for v in range(nv) if v != x]
    y = rng.choice(others)
    z = rng.choice(others)
    k = rng.choice([1, 2, 3, -1, -2, 5])
    form = rng.choice(["const", "const", "inc", "inc-lin", "dec", "addv", "subv", "mulk", "copy+k", "lin2", "lin2-", "addself", "divk", "mulself", "lin-self", "havoc", "select"])
    if form == "const": return "assign %d E 0 %d" % (x, rng.choice([0, 5, -5, 1, 2, -1, 7, 10]))
    if form == "inc": return "arith add %d %d k %d" % (x, x, k)
    if form == "inc-lin": return "assign %d E 1 1 %d %d" % (x, x, k)
    if form == "dec": return "arith sub %d %d k %d" % (x, x, k)
    if form == "addv": return "arith add %d %d v %d" % (x, y, z)
    if form == "subv": return "arith sub %d %d v %d" % (x, y, z)
    if form == "mulk": return "arith mul %d %d k %d" % (x, y, rng.choice([2, 3, -1, -2, 0, 1]))
    if form == "copy+k": return "assign %d E 1 1 %d %d" % (x, y, rng.choice([0, 0, 1, -1, 2]))
    if form == "lin2": return "assign %d E 2 1 %d 1 %d %d" % ((x,) + tuple(sorted(rng.sample(range(nv), 2))) + (rng.choice([0, 0, 1, -2]),))
    if form == "lin2-": return "assign %d E 2 1 %d -1 %d %d" % ((x,) + tuple(sorted(rng.sample(range(nv), 2))) + (rng.choice([0, 0, 1, -2]),))
    if form == "addself": return "arith %s %d %d v %d" % (rng.choice(["add", "sub"]), x, x, y)
    if form == "divk": return "arith sdiv %d %d k %d" % (x, rng.choice([x, y]), rng.choice([2, 3, -2, 1, -1]))
    if form == "mulself": return "arith mul %d %d k %d" % (x, x, rng.choice([2, -1, 3, 0]))
    if form == "lin-self": return "assign %d E 2 %d %d 1 %d %d" % (x, rng.choice([1, -1, 2]), x, y, rng.choice([0, 1]))
    if form == "havoc": return "havoc %d" % x
    return "select %d %s E 1 1 %d %d E 0 %d" % (x, fmt_cst(_rel_cst(rng, nv)), y, rng.choice([0, 1, -1]), rng.choice([0, 5, -5]))


def guarded_programs(seed, n):
    """relational guard(s); assignment(s); relational assertion(s) -- in one block, over consecutive blocks, with the
    assignment in the branches of a diamond, or around a counting loop; error (2/3) and good mode; with and without forward
    invariants.  The guard is what makes a wrong backward assignment visible: an unsound precondition like x > y met with
    the guard x <= y becomes bottom, and the intervals / constraints of the reported precondition miss concrete states."""
    rng = random.Random(seed)
    out = []
    for _ in range(n):
        nv = rng.choice([2, 2, 3, 3, 4])
        guards = ["assume " + fmt_cst(_rel_cst(rng, nv)) for _g in range(rng.choice([1, 1, 2]))]
        if rng.random() < 0.4:
            guards.insert(rng.randint(0, len(guards)), "assume " + fmt_cst(_bound_cst(rng, nv)))
        assigns = [_assignment(rng, nv) for _a in range(rng.choice([1, 1, 1, 2, 3]))]
        mode = rng.choice(["error", "error", "good"])
        asserts = []
        for i in range(rng.choice([1, 1, 2]) if mode == "error" else rng.choice([0, 1])):
            c = _rel_cst(rng, nv, kinds=("le", "le", "lt", "eq", "ne")) if rng.random() < 0.8 else _bound_cst(rng, nv)
            asserts.append("assert %s %d" % (fmt_cst(c), i + 1))
        finals = None
        if mode == "good":
            finals = [fmt_cst(_rel_cst(rng, nv) if rng.random() < 0.7 else _bound_cst(rng, nv)) for _f in range(rng.choice([1, 1, 2]))]
        shape = rng.choice(["one", "one", "split", "split", "diamond", "loop"])
        if shape == "one":
            blocks = [guards + assigns + asserts, []]; edges = [(0, 1)]
        elif shape == "split":
            blocks = [guards] + [[a] for a in assigns] + [asserts, []]
            edges = [(i, i + 1) for i in range(len(blocks) - 1)]
        elif shape == "diamond":
            a2 = [_assignment(rng, nv) for _a in range(rng.choice([0, 1, 1]))]
            blocks = [guards, assigns, a2, asserts, []]; edges = [(0, 1), (0, 2), (1, 3), (2, 3), (3, 4)]
        else:
            # guard | head | body: cnt <= 2; assignments; cnt++ | exit of the loop: cnt >= 3; assertions | exit
            cnt = nv; nv += 1
            blocks = [guards + ["assign %d E 0 0" % cnt], [], ["assume C le E 1 1 %d -2" % cnt] + assigns + ["arith add %d %d k 1" % (cnt, cnt)],
                      ["assume C le E 1 -1 %d 3" % cnt] + asserts, []]
            edges = [(0, 1), (1, 2), (2, 1), (1, 3), (3, 4)]
        out.append(_prog(blocks, edges, nv, len(blocks) - 1, mode, rng.choice([0, 1, 1]), finals=finals,
                         delay=rng.choice([1, 2]), desc=rng.choice([0, 1, 2])))
    return out


def bool_programs(seed, n):
    """b := (constraint) [; b' := not b | copy | and / or with another flag] ... assert(b'): blocks whose only assertion is a
    boolean one (after them nothing fails: their incoming postcondition is bottom in error mode), alone, beside a branch
    with a numerical assertion, or before one; error and good mode"""
    rng = random.Random(seed)
    out = []
    for _ in range(n):
        nv = rng.choice([1, 2, 2, 3])
        cst = lambda: fmt_cst(_rel_cst(rng, nv) if (nv >= 2 and rng.random() < 0.5) else _bound_cst(rng, nv))
        pre = []
        if rng.random() < 0.4:
            pre.append("assume " + cst())
        pre.append("bassign 0 " + cst())
        flag = 0
        r = rng.random()
        if r < 0.2:
            pre.append("bnot 1 0"); flag = 1
        elif r < 0.35:
            pre.append("bcopy 1 0"); flag = 1
        elif r < 0.55:
            pre.append("bassign 1 " + cst()); pre.append("bbin %s 2 0 1" % rng.choice(["and", "or", "xor"])); flag = 2
        if rng.random() < 0.3:
            pre.append(_assignment(rng, nv) if nv >= 2 else "arith add 0 0 k 1")
        mode = rng.choice(["error", "error", "error", "good"])
        chk = ["bassert %d 1" % flag]
        finals = [cst()] if mode == "good" else None
        shape = rng.choice(["next", "next", "same", "far", "branch", "before", "loop"])
        if shape == "same":
            blocks = [pre + chk, []]; edges = [(0, 1)]
        elif shape == "next":
            blocks = [pre, chk, []]; edges = [(0, 1), (1, 2)]
        elif shape == "far":
            blocks = [pre, [], chk, ["arith add 0 0 k 1"], []]; edges = [(0, 1), (1, 2), (2, 3), (3, 4)]
        elif shape == "branch":
            blocks = [pre, chk, ["assert %s 2" % cst()], []]; edges = [(0, 1), (0, 2), (1, 3), (2, 3)]
        elif shape == "before":
            blocks = [pre, chk, ["assert %s 2" % cst()], []]; edges = [(0, 1), (1, 2), (2, 3)]
        else:
            cnt = nv; nv += 1
            blocks = [pre + ["assign %d E 0 0" % cnt], [], ["assume C le E 1 1 %d -2" % cnt] + chk + ["arith add %d %d k 1" % (cnt, cnt)],
                      ["assume C le E 1 -1 %d 3" % cnt], []]
            edges = [(0, 1), (1, 2), (2, 1), (1, 3), (3, 4)]
        out.append(_prog(blocks, edges, nv, len(blocks) - 1, mode, rng.choice([0, 1, 1]), finals=finals,
                         delay=rng.choice([1, 2]), desc=rng.choice([0, 1, 2])))
    return out


def _with_mode(line, rng):
    """adds the backward options (and final states in good mode) to a program of the forward generators"""
    secs = line.split(" | ")
    head = [t for t in secs[0].split() if not t.startswith(("check=", "thr=", "live=", "entry="))]
    nv = int(head[2])
    mode = rng.choice(["error", "error", "good"])
    head += ["mode=" + mode, "fwd=%d" % rng.choice([0, 1, 1])]
    secs[0] = " ".join(head)
    secs = [s for s in secs if not s.startswith(("I ", "A "))]
    if mode == "good":
        secs.append("G " + fmt_cst(_rel_cst(rng, nv) if (nv >= 2 and rng.random() < 0.5) else _bound_cst(rng, nv)))
    return " | ".join(secs)


def programs(seed, tier, dom, n=None, bools=False, rel=False):
    """scripted corpus, 2n guarded programs (3n for relational domains), n boolean-assertion programs (3n for the flat
    boolean domains), n random programs of the interval streams (bwdcommon.gen, half of them with select and x := e(x)),
    n/2 join-built boxes with constraints over two / three variables (fwddoms.relational_programs), n/2 (2n) random
    programs with boolean statements inserted.  One third of the generated programs is the same for every domain."""
    n = n or sizes(tier)
    sd = seed + 13 * fwddoms.zid(dom)
    rng = random.Random(sd + 1)
    lines = scripted()
    g = (3 if rel else 2) * n
    lines += guarded_programs(seed + 101, g // 3) + guarded_programs(sd + 102, g - g // 3)
    b = (3 if bools else 1) * n
    lines += bool_programs(seed + 103, b // 3) + bool_programs(sd + 104, b - b // 3)
    lines += bwdcommon.gen(seed + 105, n // 4) + bwdcommon.gen(sd + 106, n // 4, all_stmts=True) + bwdcommon.gen(sd + 107, n - 2 * (n // 4), all_stmts=(rng.random() < 0.5))
    lines += [_with_mode(l, rng) for l in fwddoms.relational_programs(sd + 108, max(4, n // 2), "C02", big=False)]
    m = 2 * n if bools else max(3, n // 2)
    base = bwdcommon.gen(sd + 109, m, all_stmts=True)[len(bwdcommon.SELECT_CORPUS):]
    lines += [cfgprog.add_bool_stmts(l, rng, asserts=True) for l in base]
    return lines


# ---------------------------------------------------------------- the oracle

_CACHE = {}
_LOCK = threading.Lock()
NRUNS = 220


def must_states(line):
    """the states (block, store) on sampled concrete executions from b0 that go on to violate an assertion (error mode) /
    to finish the exit block in a final state (good mode).  store = integer variables, then the boolean flags (0 / 1).
    Does not depend on the analysis: computed once per program."""
    with _LOCK:
        if line in _CACHE:
            return _CACHE[line]
    P = cfgprog.parse_ext(line)
    nv, nbool = P["nv"], P.get("nbool", 0)
    good = P["opts"].get("mode", "error") == "good"
    finals = []
    for sct in line.split(" | "):
        t = sct.split()
        if t and t[0] == "G":
            k = cfgprog.Tok(t[1:])
            while k.more(): finals.append(cfgprog.p_cst(k))
    r0 = random.Random(zlib.crc32(line.encode()) ^ 0x11d0)
    succ = {}
    for a, b in P["edges"]:
        succ.setdefault(a, [])
        if b not in succ[a]: succ[a].append(b)
    seen = set(); out = []
    for run in range(NRUNS):
        k = run % 3
        if k == 0:
            s = [r0.choice(cfgprog.POOL) for _ in range(nv)]
        elif k == 1:
            s = [r0.randint(-12, 12) for _ in range(nv)]
        else:
            base = r0.choice([0, 0, 5, -5, 3, -4, 10, r0.randint(-12, 12)])       # stores close together: relational guards
            s = [base + r0.randint(-2, 2) for _ in range(nv)]
        s += [r0.choice([0, 1]) for _ in range(nbool)]
        b = 0; trace = []; outcome = None
        for step in range(100):
            trace.append((b, tuple(s)))
            blocked = False
            for st in P["blocks"][b]:
                r = cfgprog.exec_stmt_ext(st, s, r0, nv)
                if r[0] == "fail":
                    outcome = "fail"; break
                if r[0] != "ok":
                    blocked = True; break
                s = r[1]
            if outcome or blocked: break
            if b == P["exit"]:
                if good and all(holds(c, s) for c in finals): outcome = "good"
                break
            nxt = succ.get(b, [])
            if not nxt: break
            b = r0.choice(nxt)
        if (outcome == "fail" and not good) or (outcome == "good" and good):
            for t in trace:
                if t not in seen:
                    seen.add(t); out.append(t)
    res = (P["nb"], nv, good, out[:600])
    with _LOCK:
        if len(_CACHE) > 20000:
            _CACHE.clear()
        _CACHE[line] = res
    return res


def parse_csts(ans, nb):
    """the ' ; csts=' part of an answer: per block 'bot' or a list of constraints"""
    if " ; csts=" not in ans:
        return None
    parts = ans.split(" ; csts=", 1)[1].split(" || ")
    if len(parts) != nb:
        parts = (ans.split(" ; csts=", 1)[1] + " ").split("|| ")
        if len(parts) != nb:
            return None
    out = []
    for p in parts:
        p = p.strip()
        if p == "_|_":
            out.append("bot"); continue
        k = cfgprog.Tok(p.split()); cs = []
        while k.more(): cs.append(cfgprog.p_cst(k))
        out.append(cs)
    return out


def oracle_ext(line, ans):
    nb, nv, good, states = must_states(line)
    tabs = cfgprog.parse_bwd_tables(ans.split(" ; csts=")[0], nb)
    if tabs is None:
        return "%s: the harness printed no table: %s" % (line, ans[:200])
    csts = parse_csts(ans, nb)
    what = "reaches the exit in a final state" if good else "goes on to violate an assertion"
    for (bb, ss) in states:
        pre = tabs[bb][1]
        show = "%s%s" % (list(ss[:nv]), (" booleans %s" % list(ss[nv:])) if len(ss) > nv else "")
        if pre == "bot" or not all(in_itv(pre[v], ss[v]) for v in range(min(len(pre), nv)) if pre[v] is not None):
            return ("%s: an execution visiting b%d with store %s %s, but the reported necessary precondition of b%d is %s"
                    % (line, bb, show, what, bb, pre))
        if csts is not None and csts[bb] != "bot":
            for c in csts[bb]:
                if any(v >= len(ss) for _a, v in c[1][0]):
                    continue
                if not holds(c, ss):
                    return ("%s: an execution visiting b%d with store %s %s, but the reported necessary precondition of b%d "
                            "exports the constraint %s (variables %d.. are the boolean flags), false in that store"
                            % (line, bb, show, what, bb, fmt_cst(c), nv))
    return None


def judge(line, ans):
    if fwddoms.is_abort(ans):
        return "%s: the analysis aborted: %s" % (line, ans)
    if not HAS_BOOL.search(line):
        w = cfgprog.oracle_bwd(line, ans.split(" ; csts=")[0])
        if w:
            return w
    return oracle_ext(line, ans)


def nontrivial(line, ans):
    if fwddoms.is_abort(ans):
        return False
    return cfgprog.nontrivial_bwd(line, ans.split(" ; csts=")[0])


def match_known(known, stream, line):
    """as checks/C11.py: the recorded findings of C11 are matched by their `line_regex` on the program (findings recorded
    for the interval stream are properties of the iterator, not of the domain)"""
    for k in known:
        s = k.get("stream", "")
        if s and s != "bwd-intervals" and not s.startswith("bwd-intervals") and not fnmatch.fnmatchcase(stream, s):
            continue
        if k.get("domains") and stream[len("bwd-"):-len("-oracle")] not in k["domains"]:
            continue
        if k.get("line_regex") and re.search(k["line_regex"], line):
            return k
    return None


# ---------------------------------------------------------------- running one domain

def witness_class(w, a):
    if fwddoms.is_abort(a):
        return "abort:" + re.sub(r"\d+", "", a[:60])
    if "exports the constraint" in w:
        return "constraint"
    if "the harness printed no table" in w:
        return "table"
    return "interval"


def run_domain(tier, seed, dom, exe, known, n=None, lines=None, do_shrink=True):
    name = dom["name"]
    stream = stream_name(name)
    res = fwddoms.DomResult()
    st = res.st
    outd = os.path.join(vlib.VERIF, "out", PROP)
    replaying = lines is not None
    if lines is None and dom.get("corpus"):
        lines = list(STUB_CORPUS)
    lines = lines if lines is not None else programs(seed, tier, name, n, bools=dom.get("bools", False), rel=dom.get("rel", False))
    cases = os.path.join(outd, stream + (".replay" if replaying else "") + ".cases")
    t0 = time.time()
    answers = fwddoms.run_cases(exe, name, lines, cases)
    st["harness_s"] = round(time.time() - t0, 1)
    st["cases"] = len(lines)
    nrep = {"oracle": 0, "abort": 0, "timeout": 0}
    nknown = {}
    conf = {"error_mode": 0, "good_mode": 0, "forward_invariants": 0, "boolean_statements": 0, "boolean_assertions": 0, "relational_assertions": 0}
    t1 = time.time()
    for i, (l, a) in enumerate(zip(lines, answers)):
        h = l.split(" | ")[0]
        conf["good_mode" if "mode=good" in h else "error_mode"] += 1
        conf["forward_invariants"] += "fwd=1" in h
        conf["boolean_statements"] += bool(HAS_BOOL.search(l))
        conf["boolean_assertions"] += " bassert " in l
        conf["relational_assertions"] += bool(re.search(r"assert C \w+ E [23] ", l))
        if a == "SKIPPED":
            st["skipped_after_timeouts"] = st.get("skipped_after_timeouts", 0) + 1
            continue
        try:
            w = judge(l, a)
        except Exception as e:
            w = None
            st["oracle_errors"] = st.get("oracle_errors", 0) + 1
            st.setdefault("oracle_error_sample", "%r on %s" % (e, l[:300]))
        if not w:
            try:
                st["distinct_nontrivial"] += bool(nontrivial(l, a))
            except Exception:
                pass
            continue
        cls = ("timeout" if "timeout (no answer)" in a else "abort") if fwddoms.is_abort(a) else "oracle"
        kn = match_known(known, stream, l)
        if kn and cls == "oracle":
            st["known_finding_hits"] += 1
            nknown[kn["what"]] = nknown.get(kn["what"], 0) + 1
            if nknown[kn["what"]] == 1:
                res.known.append((kn["what"], w))
            continue
        if cls != "oracle":
            st["aborts"] += 1
            c = re.sub(r"\bv\d+\b", "v_", a[6:])[:160]
            st.setdefault("abort_classes", {})
            st["abort_classes"][c] = st["abort_classes"].get(c, 0) + 1
        else:
            st["oracle_violations"] += 1
        nrep[cls] += 1
        if nrep[cls] <= MAX_REPORTS:
            orig = None
            if do_shrink and nrep[cls] == 1 and cls != "timeout":
                try:
                    l2, a2, w2 = shrink_case(exe, name, l, a, w, os.path.join(outd, stream + ".shrink.cases"))
                    if l2 != l:
                        orig, l, a, w = l, l2, a2, w2
                except Exception:
                    pass
            head = {"abort": "FAILING INPUT (the backward analysis over the real %s domain aborts, no model involved): ",
                    "timeout": "FAILING INPUT (the backward analysis over the real %s domain gives no answer within the time limit (no termination?), no model involved): ",
                    "oracle": "FAILING INPUT (property oracle on the answer of the backward analysis over the real %s domain, no model involved): "}[cls] % name
            text = (head + w + "\nstream=%s case=%d domain=%s (%s)\ninput: %s\nimplementation: %s\n"
                    % (stream, i, name, dom["what"], l, a))
            if orig:
                text += "reduced from the generated program: %s\n" % orig
            text += "replay: python3 checks/C11_doms.py --dom %s --replay '<input>'\n" % name
            res.violations.append(("%s-%s-%d" % (stream, cls, i), text, True))
    st["oracle_s"] = round(time.time() - t1, 1)
    res.known = [(what, w, nknown[what]) for what, w in res.known]
    st["configurations"] = conf
    return res


def shrink_case(exe, name, line, ans, w, scratch, budget=150):
    c0 = witness_class(w, ans)

    def still(l2):
        if not re.match(r"cfg \d+ \d+ \d+", l2):
            return False
        a2 = fwddoms.run_cases(exe, name, [l2], scratch, per_run=20)[0]
        try:
            w2 = judge(l2, a2)
        except Exception:
            return False
        return bool(w2) and witness_class(w2, a2) == c0
    l2 = fwddoms.shrink(line, still, budget=budget)
    a2 = fwddoms.run_cases(exe, name, [l2], scratch, per_run=20)[0]
    w2 = judge(l2, a2)
    if not w2:
        return line, ans, w
    return l2, a2, w2


# ---------------------------------------------------------------- entry point of the check

def streams(rep, tier, seed, only=None, n=None):
    t0 = time.time()
    replay_line = None
    if getattr(vlib, "REPLAY", None) is not None:
        # bin/check C11 --replay <file>: only the recorded program, on the domain of the recorded stream
        m = re.match(r"bwd-(.+)-oracle$", vlib.REPLAY[0])
        if not m or m.group(1) not in [d["name"] for d in DOMAINS]:
            return
        only, replay_line = [m.group(1)], [vlib.REPLAY[1]]
    doms = [d for d in DOMAINS if only is None or d["name"] in only]
    tus = sorted(set(d["tu"] for d in doms))
    built = vlib.build_harnesses(tus)
    known = [k for k in vlib.load_known().get("findings", []) if k.get("property") == PROP and k.get("line_regex")]
    os.makedirs(os.path.join(vlib.VERIF, "out", PROP), exist_ok=True)
    info = rep.cov.setdefault("other_domains_backward", {})
    info["domains"] = {d["name"]: d["what"] for d in doms}
    info["excluded"] = EXCLUDED
    info["base_n"] = n or sizes(tier)
    info["rule"] = ("per domain: scripted corpus, guard / assignment / relational assertion shapes, boolean-assertion-only blocks, the random "
                    "programs of the interval streams, join-built boxes, random boolean statements; error and good mode, with and without "
                    "forward invariants, delay 1-2, descending 0-2; judged by cfgprog.oracle_bwd and C11_doms.oracle_ext (intervals of "
                    "at(v) and exported linear constraints of every block's precondition against concrete executions); non-trivial = "
                    "some block has a precondition that is neither bottom nor top")
    tb = rep.cov.get("trusted_base")
    if isinstance(tb, list):
        tb.append("harness/bwddoms{1,2,3}.cpp + bwddoms.hpp: necessary_preconditions_fixpoint_iterator over split_dbm, sparse_dbm, split_oct, "
                  "term domains, dis_intervals, flat_boolean over intervals / zones; same text format as bwditv.cpp "
                  "(+ exported constraints); gen/cfgprog.py interpreter with boolean statements (oracle only, no model)")
    if isinstance(getattr(rep, "assumptions", None), list):
        rep.assumptions.append("domains other than intervals in the backward analysis: no model; the analysis over each of them is judged by the "
                               "concrete interpreter on generated programs (streams bwd-<dom>-oracle)")
    for tu in tus:
        if built[tu][1]:
            rep.violation("bwd-doms-%s-build" % tu, "backward analysis over other domains: %s" % built[tu][1], False)
    good = [d for d in doms if not built[d["tu"]][1]]
    for d in doms:
        if d not in good:
            rep.cov["streams"][stream_name(d["name"])] = {"cases": 0, "oracle_violations": 0, "aborts": 0, "distinct_nontrivial": 0}
    results = {}
    with ThreadPoolExecutor(NWORKERS) as ex:
        futs = {d["name"]: ex.submit(run_domain, tier, seed, d, built[d["tu"]][0], known, n, replay_line, replay_line is None) for d in good}
        for name, f in futs.items():
            try:
                results[name] = f.result()
            except Exception as e:      # e.g. the build directory was pruned by a concurrent check
                import traceback
                r = fwddoms.DomResult()
                r.violations.append(("%s-error" % stream_name(name), "backward analysis over %s could not be run: %r\n%s"
                                     % (name, e, "".join(traceback.format_exception(type(e), e, e.__traceback__))[-1500:]), False))
                results[name] = r
    known_all = {}
    for d in good:
        r = results[d["name"]]
        rep.cov["streams"][stream_name(d["name"])] = r.st
        rep.cov["evaluations"] += r.st["cases"]
        rep.cov["distinct_nontrivial"] = rep.cov.get("distinct_nontrivial", 0) + r.st["distinct_nontrivial"]
        for what, w, cnt in r.known:
            kf = known_all.setdefault(what, {"streams": [], "first": "%s: %s" % (stream_name(d["name"]), w)})
            kf["streams"].append("%s (%d)" % (stream_name(d["name"]), cnt))
        for tag, text, wit in r.violations:
            rep.violation(tag, text, wit)
    for what, kf in known_all.items():
        rep.known_finding("%s [hits: %s; first hit: %s]" % (what, ", ".join(kf["streams"]), kf["first"][:1200]))
    info["wall_s"] = round(time.time() - t0, 1)


if __name__ == "__main__":
    import argparse, json
    ap = argparse.ArgumentParser()
    ap.add_argument("--dom", default=None)
    ap.add_argument("--n", type=int, default=None)
    ap.add_argument("--seed", type=int, default=20260925)
    ap.add_argument("--tier", default="quick")
    ap.add_argument("--replay", help="a program line (text) or a replay file holding 'input: <line>': run it on --dom")
    ap.add_argument("--shrink", action="store_true", help="with --replay: reduce the program first (same class of oracle message)")
    a = ap.parse_args()
    if os.environ.get("BWDDOMS_PRIVATE_BUILD", "1") == "1":
        # exploration from the command line: a private build cache (concurrent checks prune build/impl-*)
        vlib.BUILD = os.path.join(vlib.VERIF, "build", "bwddoms-scratch")
    os.makedirs(os.path.join(vlib.VERIF, "out", PROP), exist_ok=True)
    if a.replay:
        line = a.replay
        if os.path.exists(line):
            m = re.search(r"(?m)^input: (.*)$", open(line).read())
            line = m.group(1).strip() if m else open(a.replay).read().strip().split("\n")[0]
        rc = 0
        for dn in (a.dom or ",".join(d["name"] for d in DOMAINS)).split(","):
            dom = [d for d in DOMAINS if d["name"] == dn][0]
            exe, err = vlib.build_harness(dom["tu"])
            if err:
                print(err); sys.exit(2)
            sc = os.path.join(vlib.VERIF, "out", PROP, "bwd-%s-replay.cases" % dn)
            l1 = line
            ans = fwddoms.run_cases(exe, dn, [l1], sc, per_run=20)[0]
            w = judge(l1, ans)
            if a.shrink and w:
                l1, ans, w = shrink_case(exe, dn, l1, ans, w, sc, budget=400)
            print("== %s\ninput:          %s\nimplementation: %s\noracle:         %s" % (dn, l1, ans, w if w else "no violation found"))
            rc = rc or (1 if w else 0)
        sys.exit(rc)
    rep = fwddoms._Rep(PROP)
    t = time.time()
    streams(rep, a.tier, a.seed, only=a.dom.split(",") if a.dom else None, n=a.n)
    for name, st in rep.cov["streams"].items():
        print(name, json.dumps(st)[:700])
    for k in rep.k:
        print("KNOWN:", k[:600])
    for tag, text in rep.v:
        print("VIOLATION", tag)
        print("   " + "\n   ".join(text.split("\n")[:5]))
    print("wall %.1f s, %d evaluations, %d non-trivial, %d violations, %d known" % (time.time() - t, rep.cov["evaluations"], rep.cov["distinct_nontrivial"], len(rep.v), len(rep.k)))
