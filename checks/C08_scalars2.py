"""C08, second half (family scalars2): congruences, signs, constants, three-valued booleans,
small ranges, interval x congruence and disjunctive intervals (Coq mirror models, theorems
in Props/Properties_C08_scalars.v)."""
import vlib, scalars2

TRUSTED = [
    "scalars2: extraction of coq/Extract/ExtractScalars2.v (ExtrOcamlBasic only), ocaml/scalars2_drv.ml + zio",
    "scalars2: harness/scalars2.cpp (public API of ikos::congruence<z_number>, crab::domains::sign<z_number>, "
    "constant<z_number>, boolean_value, small_range, interval_congruence<z_number>, dis_interval<z_number>), "
    "gen/scalars2.py generator and oracle, line diff",
    "scalars2: small_range abstracts a set of variable indexes (its cardinality and, if at most one, the element); "
    "shift amounts of 2^64 and more are outside the models (mpz_get_ui truncates them)",
]
ASSUMPTIONS = [
    "scalars2 models = hand-written mirrors of congruence_impl.hpp, sign_impl.hpp, constant_impl.hpp + lib/constant.cpp, "
    "lib/boolean.cpp, lib/small_range.cpp, interval_congruence_impl.hpp, dis_interval_impl.hpp + lib/dis_interval.cpp (with fixes/scalars2-*.diff), "
    "tied to the C++ by differential testing only",
    "dis_interval<z_number>::widening_thresholds and the q_number instances are not modelled",
]


def streams(rep, tier, seed):
    rep.cov["trusted_base"] = list(rep.cov.get("trusted_base", [])) + TRUSTED
    rep.assumptions = list(rep.assumptions) + ASSUMPTIONS
    lines = scalars2.gen(seed, tier)
    vlib.run_stream(rep, "scalars2", "scalars2", "scalars2", lines, oracle=scalars2.oracle,
                    nontrivial=scalars2.nontrivial)
    vlib.run_stream(rep, "scalars2-di", "scalars2", "scalars2", scalars2.gen_di(seed, tier),
                    oracle=scalars2.oracle, nontrivial=scalars2.nontrivial)
