"""C01 over every native numerical domain (oracle only): the invariants that intra_fwd_analyzer<cfg_ref, Dom> reports for
Dom in zones (split_dbm, DefaultParams and SafeInt64), sparse_dbm, abstract_domain_ref(zones), split_oct, lookahead
widening over split_oct, term domains, dis_intervals, congruences, interval x congruence (ric, reduced product),
sign x constant, powerset of intervals, flat_boolean over intervals / zones, numerical_packing, fixed_tvpi contain
every state of the concrete executions of gen/cfgprog.py (streams fwd-<dom>-oracle).  Machinery: checks/fwddoms.py,
harness/fwddoms{1,2,3,4,5}.cpp.

Called from checks/C01.py:   C01_doms.streams(rep, tier, seed)"""
import fwddoms


def streams(rep, tier, seed):
    fwddoms.streams(rep, tier, seed, "C01")
    rep.assumptions = [a for a in rep.assumptions if a != "domains other than intervals: oracle only (see C03 search)"]
    rep.assumptions.append("domains other than intervals: no model; the forward analyzer over each of them is judged by the concrete "
                           "interpreter on generated programs (streams fwd-<dom>-oracle), their operations by the C03 search")
    tb = rep.cov.get("trusted_base")
    if isinstance(tb, list):
        tb.append("harness/fwddoms{1,2,3,4,5}.cpp + fwddoms.hpp: intra_fwd_analyzer over every other native numerical domain, same text format and output as fwditv.cpp")
