"""C03 — every abstract-domain operation is sound under arbitrary operation histories."""
import vlib, domhist, domcommon

def run(rep, tier, seed):
    rep.cov["trusted_base"] = domcommon.TRUSTED
    rep.cov["rule"] = ("seeded random operation histories (5-40 operations over 2-4 registers and 2-6 variables, corpus of past "
                       "failures first); non-trivial = at least 3 distinct printed states that are neither bottom nor top; distinct by input line")
    rep.assumptions = domcommon.ASSUME
    vlib.prove(rep)
    lines = domhist.gen(seed, tier)
    vlib.run_stream(rep, "itv-histories", "itvdom", "itvdom", lines, oracle=domhist.oracle,
                    nontrivial=domhist.nontrivial, key=lambda l: "history")
    # disequalities between two variables (disequality lowering through entailment)
    lines2 = domhist.gen(seed + 33, tier, opts={"ops": ["bounds", "bounds", "diseq", "diseq", "assign", "arith", "copy", "join", "q_entails"],
                                                "maxvars": 3, "minops": 4, "maxops": 12, "corpus": False},
                         n=(500 if tier == "quick" else 15000))
    import random
    lines2 = domhist.gen_diseq_boundary(random.Random(seed + 34), 150 if tier == "quick" else 3000) + lines2
    vlib.run_stream(rep, "itv-disequalities", "itvdom", "itvdom", lines2, oracle=domhist.oracle_dense,
                    nontrivial=domhist.nontrivial, key=lambda l: "history")
    # flat_boolean_numerical_domain<interval_domain>: mirrored (Dom/FlatBool.v), proved, exact correspondence
    import C03_flatbool
    C03_flatbool.streams(rep, tier, seed)
    import domall
    domall.search(rep, tier, seed, "C03")
