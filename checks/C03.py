"""C03 — every abstract-domain operation is sound under arbitrary operation histories."""
import vlib, domhist, domcommon

def run(rep, tier, seed):
    rep.cov["trusted_base"] = domcommon.TRUSTED
    rep.cov["rule"] = ("seeded random operation histories (5-40 operations over 2-4 registers and 2-6 variables, corpus of past "
                       "failures first); non-trivial = at least 3 distinct printed states that are neither bottom nor top; distinct by input line")
    rep.assumptions = domcommon.ASSUME
    vlib.prove(rep)
    lines = domhist.gen(seed, tier)
    vlib.run_stream(rep, "itv-histories", "itvdom", "itvdom", lines, oracle=domhist.oracle,
                    nontrivial=domhist.nontrivial, key=lambda l: "history")
    import domall
    domall.search(rep, tier, seed, "C03")
