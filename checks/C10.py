"""C10 — bottom-up + top-down inter-procedural analysis: summaries contain every terminating
execution whatever the inputs, the top-down invariants contain every reachable state, also when
the summary domain differs from the invariant domain."""
import os, re, random, vlib, inter, C09

TRUSTED = [
    "Coq 8.16.1 kernel (coqc); no native_compute",
    "extraction: ExtrOcamlBasic only; ocaml/inter_drv.ml parses the textual program, builds the WTO of every CFG (model of wto.hpp, C07), runs the analyzer model, builds the certificate (untrusted) and runs the Coq-verified certificate checker",
    "harness/inter.cpp + intertext.hpp + cfgtext.hpp: bottom_up_inter_analyzer<call_graph, BU, interval_domain> with BU = interval_domain or split_dbm_domain (zones) on real crab CFGs / call graphs built from the same text; prints get_pre/get_post of every block and get_summary of every function (zones summaries: intervals of the formals and of their pairwise differences)",
    "gen/inter.py: program generator and an independent concrete interpreter with a call stack (mathematical integers) used as oracle",
    "concrete semantics of calls = coq/Ana/InterSem.v; base statements as coq/Ir/Cfg.v",
    "the intra-procedural layer (interval domain, engine, transformer) is the one of C01/C03",
]


def run(rep, tier, seed):
    rep.cov["trusted_base"] = TRUSTED
    rep.cov["rule"] = ("the call graphs and bodies of C09 (shared variable names between caller and callee, swapped arguments, outputs "
                       "overwriting arguments, functions without exit block / without outputs, several functions without callers, direct "
                       "and mutual recursion in a separate stream) x widening delay 0-3 x descending iterations 0-3 x summary domain in "
                       "{intervals, zones} x optional initial constraints (only when main is the only function without callers); "
                       "non-trivial = a function other than main has a reachable block with a non-top entry invariant and a summary is stored")
    rep.assumptions = [
        "theorems are about the models; the implementation is tied on generated programs",
        "well-formed functions as in C09 (inputs read-only, distinct formals, callsites match signatures, distinct lhs)",
        "mirror: intervals for both phases, call graphs without cycles; with several functions without callers the model gives init to all of them (the implementation to one): initial constraints are generated only when main is the only one",
        "recursive call graphs: not mirrored (member order inside an SCC); the implementation's tables and summaries are validated by the verified checker and searched by the oracle",
        "summary domain different from the invariant domain (zones/intervals): no model; concrete oracle only (summaries checked on the intervals of the formals and of their pairwise differences)",
    ]
    vlib.prove(rep, extra_targets=["Extract/ExtractInter.vo"])
    lines = inter.gen(seed + 41, tier, "bu-nonrec")
    r = vlib.run_stream(rep, "bu-nonrec", "inter", "inter", lines, oracle=inter.oracle, nontrivial=inter.nontrivial,
                        key=lambda l: "program")
    if r:
        C09.validate_stream(rep, "bu-nonrec-validated", lines, r[0], True)
    for k, (name, strict) in enumerate((("bu-rec", True), ("bu-zones", False))):
        lines = inter.gen(seed + 51 + k, tier, name)
        hexe, impl = C09.harness_only(rep, name, lines)
        if impl is None:
            continue
        C09.oracle_stream(rep, name, lines, impl, hexe)
        rng = random.Random(seed)
        nt = sum(1 for i, l in enumerate(lines) if impl.get(i) and inter.nontrivial(l, impl[i]))
        rep.cov["streams"][name]["distinct_nontrivial"] = nt
        C09.validate_stream(rep, name + "-validated", lines, impl, strict)


def replay(path):
    txt = open(path).read()
    m = re.search(r"(?m)^input: (.*)$", txt)
    if not m:
        print("no recorded input in", path)
        return 2
    return C09.replay(path)
