"""C10 — bottom-up + top-down inter-procedural analysis: summaries contain every terminating
execution whatever the inputs, the top-down invariants contain every reachable state, also when
the summary domain differs from the invariant domain."""
import os, re, random, vlib, inter, C09

TRUSTED = [
    "Coq 8.16.1 kernel (coqc); no native_compute",
    "extraction: ExtrOcamlBasic only; ocaml/inter_drv.ml parses the textual program, builds the WTO of every CFG (model of wto.hpp, C07), runs the analyzer model, builds the certificate (untrusted) and runs the Coq-verified certificate checker",
    "harness/inter.cpp + intertext.hpp + cfgtext.hpp: bottom_up_inter_analyzer<call_graph, BU, interval_domain> with BU = interval_domain or split_dbm_domain (zones) on real crab CFGs / call graphs built from the same text; prints get_pre/get_post of every block and get_summary of every function (zones summaries: intervals of the formals and of their pairwise differences)",
    "gen/inter.py: program generator and an independent concrete interpreter with a call stack (mathematical integers) used as oracle",
    "concrete semantics of calls = coq/Ana/InterSem.v; base statements as coq/Ir/Cfg.v",
    "the intra-procedural layer (interval domain, engine, transformer) is the one of C01/C03",
]


# recursive call graphs, mirrored by coq/Ana/InterBURec.v (proved sound: Props/Properties_C10_rec.v)
CORPUS_BUREC = [
    # mutual recursion: g is summarised first (its call of f forgets the lhs), f reuses g's summary: r in [0, 7]
    "inter 3 7 | F 0 1 0 I 0 O 0 | F 1 4 3 I 1 0 O 1 1 | F 2 1 0 I 1 3 O 1 4 | B 0 0 assign 5 E 0 5 ; call 1 1 6 1 5 | B 1 1 assume C le E 1 -1 0 1 ; arith sub 2 0 k 1 ; call 2 1 1 1 2 | B 1 2 assume C le E 1 1 0 0 ; assign 1 E 0 0 | B 2 0 call 1 1 4 1 3 ; assign 4 E 0 7 | E 1 0 1 0 2 1 3 2 3",
    # the same component entered through g: the depth-first search finishes f first, the summaries swap roles
    "inter 3 7 | F 0 1 0 I 0 O 0 | F 1 4 3 I 1 0 O 1 1 | F 2 1 0 I 1 3 O 1 4 | B 0 0 assign 5 E 0 5 ; call 2 1 6 1 5 | B 1 1 assume C le E 1 -1 0 1 ; arith sub 2 0 k 1 ; call 2 1 1 1 2 | B 1 2 assume C le E 1 1 0 0 ; assign 1 E 0 0 | B 2 0 call 1 1 4 1 3 ; assign 4 E 0 7 | E 1 0 1 0 2 1 3 2 3",
    # main belongs to a recursive component (f calls main): main has no summary, every member starts from top
    "inter 2 4 | F 0 1 0 I 0 O 0 | F 1 4 3 I 1 0 O 1 1 | B 0 0 assign 2 E 0 3 ; call 1 1 3 1 2 | B 1 1 assume C le E 1 -1 0 1 ; call 0 0 0 ; assign 1 E 0 1 | B 1 2 assume C le E 1 1 0 0 ; assign 1 E 0 0 | E 1 0 1 0 2 1 3 2 3",
    # a recursive function without exit block inside a component: no summary, its callers forget the lhs
    "inter 3 6 | F 0 1 0 I 0 O 0 | F 1 1 -1 I 1 0 O 1 1 | F 2 1 0 I 1 0 O 1 1 | B 0 0 assign 2 E 0 4 ; call 2 1 3 1 2 | B 1 0 call 2 1 1 1 0 | B 2 0 assign 1 E 0 9 ; call 1 1 4 1 0",
    # the lhs of a recursive call holds a value before the call: a callsite without summary must forget it
    # (f(0) = 100, f(a) = f(a-1) + 1; keeping u = 5 gives the summary r in [6, 100], f(3) = 103)
    "inter 2 6 | F 0 1 0 I 0 O 0 | F 1 4 3 I 1 0 O 1 1 | B 0 0 assign 4 E 0 3 ; call 1 1 5 1 4 | B 1 1 assume C le E 1 -1 0 1 ; arith sub 2 0 k 1 ; assign 3 E 0 5 ; call 1 1 3 1 2 ; arith add 1 3 k 1 | B 1 2 assume C le E 1 1 0 0 ; assign 1 E 0 100 | E 1 0 1 0 2 1 3 2 3",
    # a non-recursive callee below a recursive component gets the join of the contexts of all activations
    "inter 3 6 | F 0 1 0 I 0 O 0 | F 1 4 3 I 1 0 O 1 1 | F 2 1 0 I 1 0 O 1 1 | B 0 0 assign 2 E 0 2 ; call 1 1 3 1 2 | B 1 1 assume C le E 1 -1 0 1 ; arith sub 4 0 k 1 ; call 1 1 1 1 4 ; call 2 1 5 1 4 | B 1 2 assume C le E 1 1 0 0 ; assign 1 E 0 0 | B 2 0 arith add 1 0 k 1 | E 1 0 1 0 2 1 3 2 3",
]


def _reach_from_main(funcs):
    seen, todo = {0}, [0]
    while todo:
        f = todo.pop()
        for b in funcs[f]["blocks"]:
            for st in b:
                if st.startswith("call "):
                    g = int(st.split()[1])
                    if g not in seen:
                        seen.add(g)
                        todo.append(g)
    return seen


def gen_burec1(seed, tier):
    """stream bu-rec1: corpus, scripted nested cycles of the call graph, random call graphs (80% with direct / mutual
    recursion; 15% of those with a call of main from another function when some other function stays without callers).
    Initial constraints only when every function is reachable from main (then the code's root is main or a member of
    main's recursive component: the model's choice of the functions that get init is the code's)."""
    rng = random.Random(seed)
    quick = tier == "quick"
    o0 = [("an", "bu"), ("bumodel", "rec")]
    lines = []
    for c in CORPUS_BUREC + inter.CORPUS_TD + inter.CORPUS_REC1B:
        lines.append(inter.with_opts(c, o0))
        lines.append(inter.with_opts(c, o0 + [("delay", 0), ("desc", 0)]))
    for _ in range(30 if quick else 500):
        nvn, fn = inter.nested_cycles(rng)
        lines.append(inter.fmt_iprogram(nvn, fn, o0 + [("delay", rng.choice([0, 1, 2, 3])), ("desc", rng.choice([0, 1, 2]))]))
    for _ in range(1200 if quick else 20000):
        nv, funcs = inter.gen_iprogram(rng, recursive=rng.random() < 0.8)
        if rng.random() < 0.15 and len(funcs) > 2:
            called = set(int(st.split()[1]) for F in funcs for b in F["blocks"] for st in b if st.startswith("call "))
            free = [f for f in range(1, len(funcs)) if f not in called]
            cand = [f for f in range(1, len(funcs)) if f not in free[:1]]
            if free and cand:
                F = funcs[rng.choice(cand)]
                blk = rng.choice(F["blocks"])
                blk.insert(rng.randint(0, len(blk)), "call 0 0 0")
        o = o0 + [("delay", rng.choice([0, 1, 2, 2, 3])), ("desc", rng.choice([0, 1, 2, 2, 3]))]
        init = inter.rand_init(rng, nv)
        if init is not None and len(_reach_from_main(funcs)) != len(funcs):
            init = None
        lines.append(inter.fmt_iprogram(nv, funcs, o, init))
    return lines


def run(rep, tier, seed):
    rep.cov["trusted_base"] = TRUSTED
    rep.cov["rule"] = ("the call graphs and bodies of C09 (shared variable names between caller and callee, swapped arguments, outputs "
                       "overwriting arguments, functions without exit block / without outputs, several functions without callers, direct "
                       "and mutual recursion in a separate stream) x widening delay 0-3 x descending iterations 0-3 x summary domain in "
                       "{intervals, zones} x optional initial constraints (only when main is the only function without callers); "
                       "non-trivial = a function other than main has a reachable block with a non-top entry invariant and a summary is stored")
    rep.assumptions = [
        "theorems are about the models; the implementation is tied on generated programs",
        "well-formed functions as in C09 (inputs read-only, distinct formals, callsites match signatures, distinct lhs)",
        "mirror: intervals for both phases; call graphs without cycles (coq/Ana/InterBU.v, stream bu-nonrec) and any call graph, recursive components included (coq/Ana/InterBURec.v, stream bu-rec1: the member order inside a component is the finish order of the depth-first search of sccg.hpp over the call graph, mirrored; exact agreement required on every case; model proved sound for any call graph and any orders in Props/Properties_C10_rec.v); with several functions without callers the model gives init to all of them (the implementation to one): initial constraints are generated only when main is the only one (bu-nonrec) / every function is reachable from main (bu-rec1)",
        "stream bu-rec: the implementation's tables and summaries on recursive call graphs are in addition validated by the verified checker and searched by the oracle",
        "summary domain different from the invariant domain (zones/intervals): no model; concrete oracle only (summaries checked on the intervals of the formals and of their pairwise differences)",
    ]
    vlib.prove(rep, extra_targets=["Extract/ExtractInter.vo"])
    lines = inter.gen(seed + 41, tier, "bu-nonrec")
    r = vlib.run_stream(rep, "bu-nonrec", "inter", "inter", lines, oracle=inter.oracle, nontrivial=inter.nontrivial,
                        key=lambda l: "program")
    if r:
        C09.validate_stream(rep, "bu-nonrec-validated", lines, r[0], True)
    # recursive call graphs: exact correspondence with the mirror coq/Ana/InterBURec.v (proved sound for any call
    # graph: Props/Properties_C10_rec.v) + oracle on every answer of the implementation
    lines = gen_burec1(seed + 61, tier)
    vlib.run_stream(rep, "bu-rec1", "inter", "inter", lines, oracle=inter.oracle, nontrivial=inter.nontrivial,
                    key=lambda l: "program")
    for k, (name, strict) in enumerate((("bu-rec", True), ("bu-zones", False))):
        lines = inter.gen(seed + 51 + k, tier, name)
        hexe, impl = C09.harness_only(rep, name, lines)
        if impl is None:
            continue
        C09.oracle_stream(rep, name, lines, impl, hexe)
        rng = random.Random(seed)
        nt = sum(1 for i, l in enumerate(lines) if impl.get(i) and inter.nontrivial(l, impl[i]))
        rep.cov["streams"][name]["distinct_nontrivial"] = nt
        C09.validate_stream(rep, name + "-validated", lines, impl, strict)


def replay(path):
    txt = open(path).read()
    m = re.search(r"(?m)^input: (.*)$", txt)
    if not m:
        print("no recorded input in", path)
        return 2
    return C09.replay(path)
