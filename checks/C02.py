"""C02 — a 'safe' or 'unreachable' assertion verdict is never wrong."""
import os, re, random, vlib, cfgprog, bwdcommon, C02_inter, C02_doms

# forward+backward: hand-picked cases aimed at the dominance-based discharge
FB_EXTRA = [
    # the backward refinement proves what the forward analysis cannot: y := x; assume(x <= 0); assert(y <= 0)
    "cfg 2 2 1 mode=error fwd=1 delay=1 desc=1 fb=1 refined=0 maxref=5 nasserts=1 | B 0 assign 1 E 1 1 0 0 | B 1 assume C le E 1 1 0 0 ; assert C le E 1 1 1 0 1 | E 0 1",
    "cfg 2 2 1 mode=error fwd=1 delay=1 desc=1 fb=1 refined=1 maxref=0 nasserts=1 | B 0 assign 1 E 1 1 0 0 | B 1 assume C le E 1 1 0 0 ; assert C le E 1 1 1 0 1 | E 0 1",
    # a single block: the dominator tree is empty and the 'no dominance information' branch discharges every assertion once the
    # assumption of the entry is bottom; then a bottom block that is not the entry (b1) dominating b3 but not b4
    "cfg 1 2 0 mode=error fwd=1 delay=1 desc=1 fb=1 refined=0 maxref=5 nasserts=1 | B 0 assign 1 E 1 1 0 0 ; assume C le E 1 1 0 0 ; assert C le E 1 1 1 0 1 | E",
    "cfg 6 2 5 mode=error fwd=1 delay=1 desc=1 fb=1 refined=0 maxref=2 nasserts=2 | B 0 | B 1 assign 1 E 1 1 0 0 | B 2 assume C le E 1 1 0 0 | B 3 assert C le E 1 1 1 0 1 | B 4 assert C le E 1 1 0 -100 2 | B 5 | E 0 1 0 4 1 2 2 3 3 5 4 5",
    # the verdicts depend on the second / third refinement round (old && new, more_refinement) and on the
    # max_refine_iterations bound (found by search: they separate realistic edits of the loop from the code)
    "cfg 6 3 3 mode=error fwd=0 delay=1 desc=0 fb=1 refined=0 maxref=1 nasserts=3 | B 0 assign 0 E 1 1 2 1 ; assume C eq E 1 2 2 2 ; assert C le E 1 -2 0 2 1 ; assign 1 E 0 -5 | B 1  | B 2 assume C le E 1 1 1 -4 | B 3 assume C le E 1 -1 1 5 ; assume C ne E 2 -1 1 1 2 -7 | B 4 assign 1 E 0 0 ; assign 0 E 1 1 2 5 | B 5 assign 2 E 1 2 0 0 ; assert C le E 2 -2 1 1 2 -7 2 ; assert C eq E 2 -2 0 1 1 2 3 ; arith add 1 1 k 2 | E 0 1 1 2 1 3 2 4 4 5 5 1",
    "cfg 4 2 3 mode=error fwd=0 delay=2 desc=0 fb=1 refined=0 maxref=5 nasserts=1 | B 0 assume C lt E 2 -1 0 -2 1 5 ; arith add 1 0 k 2 | B 1 assume C le E 2 3 0 1 1 5 ; assign 1 E 1 2 0 -1 ; arith mul 0 1 v 1 ; assert C le E 1 2 1 1 1 | B 2 assume C le E 2 -3 0 -1 1 -4 ; assign 1 E 1 2 0 10 ; bit shl 1 0 k 0 | B 3  | E 0 1 0 2 1 3 2 3",
    "cfg 2 2 1 mode=error fwd=1 delay=2 desc=1 fb=1 refined=1 maxref=1 nasserts=2 | B 0 assign 1 E 0 -7 ; assign 1 E 1 3 0 -1 ; assign 1 E 1 1 0 10 ; assert C lt E 2 2 0 1 1 5 1 | B 1 assume C ne E 1 -1 1 10 ; arith add 1 0 v 0 ; assign 0 E 1 3 1 2 ; assert C ne E 1 -1 0 1 2 | E 0 1",
    "cfg 4 3 3 mode=error fwd=0 delay=2 desc=2 fb=1 refined=1 maxref=1 nasserts=2 | B 0 arith sub 1 2 k 7 ; assume C eq E 1 -1 1 -7 | B 1 assume C eq E 1 -2 2 10 ; arith sub 0 2 k 0 ; havoc 1 ; assert C le E 1 1 1 10 1 | B 2 assume C ne E 1 -2 2 10 ; assert C le E 2 1 0 3 1 2 2 | B 3  | E 0 1 0 2 1 3 2 3",
    # entry block with a predecessor that is unreachable from it; assertion after a loop
    "cfg 5 2 3 mode=error fwd=1 delay=1 desc=1 fb=1 refined=0 maxref=5 nasserts=1 | B 0 assign 1 E 1 1 0 0 | B 1 | B 2 arith add 0 0 k 0 | B 3 assume C le E 1 1 0 0 ; assert C le E 1 1 1 0 1 | B 4 assign 0 E 0 1 | E 0 1 1 2 2 1 1 3 4 0",
]

def run(rep, tier, seed):
    rep.cov["trusted_base"] = [
        "Coq 8.16.1 kernel (coqc); no native_compute (vm_compute in one Example)",
        "extraction: ExtrOcamlBasic only; ocaml/fwditv_drv.ml (forward analyzer model + checker model)",
        "harness/fwditv.cpp (intra_fwd_analyzer + intra_checker + assert_property_checker) and harness/bwditv.cpp (intra_forward_backward_analyzer + checker) over interval_domain on real crab CFGs",
        "gen/cfgprog.py: program generator with assertions and the concrete interpreter used as oracle",
    ]
    rep.cov["rule"] = ("structured random programs with 1-6 numerical assertions (unique ids): forward analysis + checker compared with the "
                       "model; forward+backward analyzer verdicts checked by the concrete oracle; non-trivial = some assertion is classified safe or unreachable")
    rep.assumptions = ["the theorem covers verdicts of the forward checker on tables accepted by the verified checker of C01",
                       "forward+backward (refinement loop, dominance-based discharge) and inter-procedural verdicts: concrete oracle only (see C11, C09, C10)",
                       "boolean and reference assertions are outside the modelled fragment"]
    vlib.prove(rep)
    lines = cfgprog.gen(seed + 2, tier, n=(350 if tier == "quick" else 10000),
                        opts={"asserts": True, "fixed_opts": [("check", 1)]})
    vlib.run_stream(rep, "fwd-verdicts", "fwditv", "fwditv", lines, oracle=cfgprog.oracle_verdicts,
                    nontrivial=cfgprog.nontrivial_verdicts, key=lambda l: "program")
    # verdicts of the checker interleaved with the inter-procedural analyses: oracle only
    C02_inter.streams(rep, tier, seed)
    C02_doms.streams(rep, tier, seed)
    import C02_refs; C02_refs.streams(rep, tier, seed)       # reference assertions over the region domains: oracle only
    import C02_refcst
    C02_refcst.streams(rep, tier, seed)
    # forward+backward analyzer: correspondence with the Coq mirror Ana/FwdBwd.v (theorem
    # C02_forward_backward_verdicts_sound applies to what the mirror prints) + concrete oracle
    rep.assumptions = [a.replace("forward+backward (refinement loop, dominance-based discharge) and inter-procedural verdicts",
                                 "inter-procedural verdicts") for a in rep.assumptions]
    rep.assumptions += [
        "forward+backward analyzer: the theorem is about the mirror model of intra_forward_backward_analyzer::run + the checker with its proved set "
        "(interval domain, empty initial assumption map, analysis started at the CFG entry, statements of the backward fragment of C11); the "
        "verdicts of the implementation are compared with the mirror's on every generated program (all of them: also the skipped-refinement cases)",
        "forward+backward with use_refined_invariants: only 'safe' verdicts are claimed ('unreachable' is refuted in Coq: known finding)"]
    rep.cov["trusted_base"].append("ocaml/fwditv_drv.ml --fb (forward+backward mirror: refinement loop, dominance, checker with proved set)")
    rep.cov["rule"] = rep.cov["rule"].replace("forward+backward analyzer verdicts checked by the concrete oracle",
                                              "forward+backward analyzer verdicts compared with the mirror model and checked by the concrete oracle")
    lines2 = FB_EXTRA + bwdcommon.gen(seed + 22, 200 if tier == "quick" else 6000, fb=True)
    if getattr(vlib, "REPLAY", None) is not None:        # bin/check C02 --replay <file>: only the recorded input
        if vlib.REPLAY[0] != "fwd-bwd-verdicts-oracle":
            return
        lines2 = [vlib.REPLAY[1]]
    hexe, err = vlib.build_harness("bwditv")
    if err:
        rep.violation("fb-build", err, False); return
    d = os.path.join(vlib.VERIF, "out", rep.prop)
    cf = os.path.join(d, "fb-verdicts%s.cases" % (".replay" if getattr(vlib, "REPLAY", None) is not None else ""))
    open(cf, "w").write("\n".join(lines2) + "\n")
    impl = vlib.run_harness_resilient(hexe, [], cf, len(lines2), 900)
    # the mirror: extraction of Ana/FwdBwd.v, driver mode --fb (same line format as the harness)
    model = None
    rc, out = vlib.coq_make(["Extract/ExtractFwditv.vo"])
    dexe, derr = (None, "Extract/ExtractFwditv.v no longer compiles:\n" + out[-2000:]) if rc != 0 else vlib.build_driver("fwditv")
    if derr:
        rep.violation("fb-driver", "model driver fwditv: %s" % derr, False)
    else:
        rc, out = vlib.sh([dexe, "--fb", cf], timeout=900)
        model = {}
        for ml in out.split("\n"):
            if ml.startswith("R "):
                sp = ml.split(" ", 2)
                model[int(sp[1])] = sp[2] if len(sp) > 2 else ""
        if rc != 0 or len(model) != len(lines2):
            rep.violation("fb-model", "model driver failed on the forward+backward stream (rc=%s, %d/%d answers)\n%s"
                          % (rc, len(model), len(lines2), out[-1500:]), False)
            model = None
    checks_of = lambda ans: ans.split(" ; checks=", 1)[1].strip() if " ; checks=" in ans else ans.strip()
    rng = random.Random(seed)
    hits = 0; nt = 0; mism = 0
    known = [k for k in vlib.load_known().get("findings", [])
             if k.get("property") == "C02" and k.get("stream") == "fwd-bwd-verdicts-oracle"]
    nknown = {}
    for i, l in enumerate(lines2):
        a = impl.get(i, "MISSING")
        w = cfgprog.oracle_verdicts(l, a, rng)
        differs = model is not None and checks_of(a) != checks_of(model[i])
        if cfgprog.nontrivial_verdicts(l, a) and not differs:
            nt += 1
        if w:
            kn = [k for k in known if re.search(k["line_regex"], l) and re.search(k.get("witness_regex", ""), w)]
            if kn:
                nknown[kn[0]["what"]] = nknown.get(kn[0]["what"], 0) + 1
                if nknown[kn[0]["what"]] == 1:
                    rep.known_finding("%s [first of this class: %s]" % (kn[0]["what"], w[:400]))
                w = None
        if w:
            hits += 1
        if differs:
            mism += 1
        if (w and hits <= 2) or (differs and mism <= 2):
            text = "stream=fwd-bwd-verdicts-oracle case=%d\ninput: %s\nimplementation: %s\n" % (i, l, a)
            if model is not None:
                text += "model: %s\n" % model[i]
            if w:
                text = "FAILING INPUT (property oracle on the implementation's answer): " + w + "\n" + text
            else:
                text = ("correspondence broken: the verdicts of the forward+backward analyzer no longer agree with the Coq model Ana/FwdBwd.v "
                        "(theorem C02_forward_backward_verdicts_sound of Properties_C02.v no longer applies to this code); the oracle found no "
                        "concrete counterexample on this input\n") + text
            rep.violation("fb-verdicts-%d" % i, text, bool(w))
    rep.cov["streams"]["fwd-bwd-verdicts-oracle"] = {"cases": len(lines2), "oracle_violations": hits, "distinct_nontrivial": nt,
                                                  "known_finding_hits": sum(nknown.values()),
                                                  "compared_with_model": 0 if model is None else len(lines2), "mismatches": mism,
                                                  "compared": "the ' ; checks=' verdict suffix, every configuration of the generator (refined=0/1, maxref, dead-end assertion blocks)"}
    rep.cov["evaluations"] += len(lines2)
