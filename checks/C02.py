"""C02 — a 'safe' or 'unreachable' assertion verdict is never wrong."""
import os, re, random, vlib, cfgprog, bwdcommon, C02_inter

def run(rep, tier, seed):
    rep.cov["trusted_base"] = [
        "Coq 8.16.1 kernel (coqc); no native_compute (vm_compute in one Example)",
        "extraction: ExtrOcamlBasic only; ocaml/fwditv_drv.ml (forward analyzer model + checker model)",
        "harness/fwditv.cpp (intra_fwd_analyzer + intra_checker + assert_property_checker) and harness/bwditv.cpp (intra_forward_backward_analyzer + checker) over interval_domain on real crab CFGs",
        "gen/cfgprog.py: program generator with assertions and the concrete interpreter used as oracle",
    ]
    rep.cov["rule"] = ("structured random programs with 1-6 numerical assertions (unique ids): forward analysis + checker compared with the "
                       "model; forward+backward analyzer verdicts checked by the concrete oracle; non-trivial = some assertion is classified safe or unreachable")
    rep.assumptions = ["the theorem covers verdicts of the forward checker on tables accepted by the verified checker of C01",
                       "forward+backward (refinement loop, dominance-based discharge) and inter-procedural verdicts: concrete oracle only (see C11, C09, C10)",
                       "boolean and reference assertions are outside the modelled fragment"]
    vlib.prove(rep)
    lines = cfgprog.gen(seed + 2, tier, n=(350 if tier == "quick" else 10000),
                        opts={"asserts": True, "fixed_opts": [("check", 1)]})
    vlib.run_stream(rep, "fwd-verdicts", "fwditv", "fwditv", lines, oracle=cfgprog.oracle_verdicts,
                    nontrivial=cfgprog.nontrivial_verdicts, key=lambda l: "program")
    # verdicts of the checker interleaved with the inter-procedural analyses: oracle only
    C02_inter.streams(rep, tier, seed)
    # forward+backward analyzer: oracle only
    lines2 = bwdcommon.gen(seed + 22, 200 if tier == "quick" else 6000, fb=True)
    hexe, err = vlib.build_harness("bwditv")
    if err:
        rep.violation("fb-build", err, False); return
    d = os.path.join(vlib.VERIF, "out", rep.prop)
    cf = os.path.join(d, "fb-verdicts.cases")
    open(cf, "w").write("\n".join(lines2) + "\n")
    impl = vlib.run_harness_resilient(hexe, [], cf, len(lines2), 900)
    rng = random.Random(seed)
    hits = 0; nt = 0
    known = [k for k in vlib.load_known().get("findings", [])
             if k.get("property") == "C02" and k.get("stream") == "fwd-bwd-verdicts-oracle"]
    nknown = {}
    for i, l in enumerate(lines2):
        a = impl.get(i, "MISSING")
        w = cfgprog.oracle_verdicts(l, a, rng)
        if cfgprog.nontrivial_verdicts(l, a):
            nt += 1
        if w:
            kn = [k for k in known if re.search(k["line_regex"], l) and re.search(k.get("witness_regex", ""), w)]
            if kn:
                nknown[kn[0]["what"]] = nknown.get(kn[0]["what"], 0) + 1
                if nknown[kn[0]["what"]] == 1:
                    rep.known_finding("%s [first of this class: %s]" % (kn[0]["what"], w[:400]))
                continue
            hits += 1
            if hits <= 2:
                rep.violation("fb-verdicts-%d" % i, "FAILING INPUT: " + w + "\ninput: " + l + "\nimplementation: " + a, True)
    rep.cov["streams"]["fwd-bwd-verdicts-oracle"] = {"cases": len(lines2), "oracle_violations": hits, "distinct_nontrivial": nt,
                                                  "known_finding_hits": sum(nknown.values())}
    rep.cov["evaluations"] += len(lines2)
