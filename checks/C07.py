"""C07 — weak topological orderings are well-formed."""
import os, vlib, wto

TRUSTED = [
    "Coq 8.16.1 kernel (coqc); vm_compute only in the Examples, no native_compute",
    "extraction: ExtrOcamlBasic only, no Extract Constant; OCaml 4.13.1; ocaml/wto_drv.ml (parsing of case lines and of the harness answer, printing)",
    "correspondence: gen/wto.py generator, harness/wto.cpp (z_cfg_t + cfg_ref, call_graph + call_graph_ref, public API of ikos::wto: accept(visitor), nesting(n)), line diff",
    "successor order: crab CFG = order in which edges were added without duplicates (basic_block::m_next is a vector, insert_adjacent); call graph = ascending callee index (boost::setS)",
    "the python oracle gen/wto.py:oracle re-implements the property independently (only used to phrase a failing input)",
]


def verified_checker_on_impl(rep, name, lines):
    """Second mode of the driver: the Coq-verified checker (WtoCheck.check, extracted) is run on
    the ordering and nesting printed by the C++ itself; BAD = the real code violates C07 on
    that graph, whatever the model says."""
    hexe, err = vlib.build_harness("wto")
    dexe, err2 = vlib.build_driver("wto")
    if err or err2:
        return  # already reported by run_stream
    d = os.path.join(vlib.VERIF, "out", rep.prop)
    cf = os.path.join(d, name + ".cases")
    impl = vlib.run_harness_resilient(hexe, (), cf, len(lines), 900)
    chk = os.path.join(d, name + ".chk")
    with open(chk, "w") as f:
        for i, l in enumerate(lines):
            f.write("%s ## %s\n" % (l, impl.get(i, "MISSING")))
    rc, out = vlib.sh([dexe, "--check", chk], timeout=900)
    res = {}
    for l in out.split("\n"):
        if l.startswith("R "):
            sp = l.split(" ", 2)
            res[int(sp[1])] = sp[2] if len(sp) > 2 else ""
    st = rep.cov["streams"].setdefault(name + "-verified-checker", {})
    st.update({"cases": len(lines), "ok": sum(1 for v in res.values() if v == "OK"),
               "bad": 0, "skipped": sum(1 for v in res.values() if v == "SKIP")})
    if rc != 0 or len(res) != len(lines):
        rep.violation(name + "-checker", "verified checker run failed (rc=%s, %d/%d)\n%s"
                      % (rc, len(res), len(lines), out[-1500:]), False)
        return
    done = 0
    for i, l in enumerate(lines):
        v = res[i]
        if v == "OK":
            continue
        st["bad"] += 1
        if done < 5:
            done += 1
            a = impl.get(i, "MISSING")
            why = wto.oracle(l, a, None) if a.startswith("W ") else None
            rep.violation("%s-checker-%d" % (name, i),
                          "FAILING INPUT (Coq-verified checker WtoCheck.check on the implementation's answer: %s): graph %s\n"
                          "implementation: %s\n%s" % (v, l, a, why or ""), a.startswith("W ") or a == "ABORT")


def run(rep, tier, seed):
    rep.cov["trusted_base"] = TRUSTED
    rep.cov["rule"] = ("corpus + boundary graphs + all graphs on <=2 nodes (3 nodes: all in thorough, a seeded third in quick) "
                       "under every successor order + seeded random digraphs with 1..40 nodes through wto<cfg_ref> "
                       "(both constructors) and wto<call_graph_ref>; a case is non-trivial when the ordering has at "
                       "least one component (cycle) and at least 3 nodes; distinct by input line")
    rep.assumptions = [
        "model = hand-written mirror of the iterative wto::visit/component/nesting_builder, tied by differential testing only",
        "C07_wto_wellformed_total: for every graph whose successor lists mention only its own nodes and every entry, "
        "the model returns an ordering (fuel never exhausted) and it satisfies the property; graphs with dangling "
        "successor ids are covered by C07_wto_wellformed under the hypothesis build = Some",
        "graph representations other than crab CFGs and call graphs (and cfg_rev) are not exercised",
    ]
    vlib.prove(rep)
    lines = wto.gen(seed, tier)
    vlib.run_stream(rep, "wto", "wto", "wto", lines, oracle=wto.oracle, nontrivial=wto.nontrivial)
    verified_checker_on_impl(rep, "wto", lines)


def replay(path):
    """bin/check C07 --replay <file>: re-run the recorded graph on both sides and print both
    answers, the oracle's verdict and the verdict of the Coq-verified checker on the C++ answer."""
    import re, tempfile
    txt = open(path).read()
    m = re.search(r"^input: (.*)$", txt, re.M) or re.search(r"graph ((?:cfg|cfge|cg) \d+ \d+[^\n:]*)", txt)
    if not m:
        print("no recorded input in", path)
        return 2
    line = m.group(1).strip()
    hexe, err = vlib.build_harness("wto")
    dexe, err2 = vlib.build_driver("wto")
    if err or err2:
        print(err or err2)
        return 2
    d = os.path.join(vlib.VERIF, "out", "C07")
    os.makedirs(d, exist_ok=True)
    cf = os.path.join(d, "replay.case")
    open(cf, "w").write(line + "\n")
    impl = vlib.run_harness_resilient(hexe, (), cf, 1, 120).get(0, "MISSING")
    rc, out = vlib.sh([dexe, cf], timeout=120)
    model = out.strip().split(" ", 2)[2] if out.startswith("R 0") else out.strip()
    open(cf + ".chk", "w").write("%s ## %s\n" % (line, impl))
    rc, out = vlib.sh([dexe, "--check", cf + ".chk"], timeout=120)
    print("input:            ", line)
    print("implementation:   ", impl)
    print("model:            ", model)
    print("oracle:           ", wto.oracle(line, impl, None) or "property holds on the implementation's answer")
    print("verified checker: ", out.strip())
    return 0 if impl == model else 1
