"""C01 / C02 over every native numerical domain at the level of the forward analyzer (oracle only, no model).

harness/fwddoms{1,2,3,4}.cpp run intra_fwd_analyzer<cfg_ref, Dom> (and, with check=1, intra_checker +
assert_property_checker) for --mode=<dom> on the textual CFG programs of gen/cfgprog.py, printing the same
tables as harness/fwditv.cpp; the concrete interpreter of gen/cfgprog.py judges every answer:
  C01 (checks/C01_doms.py)  cfgprog.oracle           every state of a concrete execution is inside the reported invariant
  C02 (checks/C02_doms.py)  cfgprog.oracle_verdicts  no execution refutes a 'safe' / 'unreachable' verdict
Per domain: the corpus of cfgprog, then generated programs; half of them with widening thresholds, liveness-based
pruning, (the generator's) alternative entry blocks and an assumption map.  An abort (CRAB_ERROR, crash, no answer
within the time limit) is a violation of its own class.  Hits are matched against known_findings.json (entries of
the check's property whose `stream` matches the stream name fwd-<dom>-oracle as a glob pattern, `line_regex` on the
program, `witness_regex` on the oracle text) and reported as known findings; anything else is a violation (at most
2 per domain and class) with the program, the implementation's answer and the violating execution.

Command line (exploration / replay):
  python3 checks/fwddoms.py C01 [--dom zones,oct] [--n 200] [--seed S] [--tier quick]
  python3 checks/fwddoms.py C02 --dom tvpi --replay '<program line>'"""
import os, re, sys, time, random, zlib, fnmatch
from concurrent.futures import ThreadPoolExecutor
_V = os.path.dirname(os.path.dirname(os.path.abspath(__file__)))
for _p in ("bin", "gen", "checks"):
    if os.path.join(_V, _p) not in sys.path:
        sys.path.insert(0, os.path.join(_V, _p))
import vlib, cfgprog

# name, translation unit, what it is
DOMAINS = [
    dict(name="zones", tu="fwddoms1", what="split_dbm_domain, DefaultParams"),
    dict(name="zones-safe", tu="fwddoms1", what="split_dbm_domain, SafeInt64DefaultParams"),
    dict(name="sparse", tu="fwddoms1", what="sparse_dbm_domain"),
    dict(name="ref-zones", tu="fwddoms1", what="abstract_domain_ref<z_var> around split_dbm_domain"),
    dict(name="oct", tu="fwddoms2", what="split_oct_domain"),
    dict(name="look-oct", tu="fwddoms2", what="lookahead_widening_domain<split_oct_domain>"),
    dict(name="term-itv", tu="fwddoms2", what="term_domain over interval_domain"),
    dict(name="term-zones", tu="fwddoms2", what="term_domain over split_dbm_domain"),
    dict(name="disitv", tu="fwddoms3", what="dis_interval_domain"),
    dict(name="cong", tu="fwddoms3", what="congruence_domain"),
    dict(name="ric", tu="fwddoms3", what="numerical_congruence_domain<interval_domain>"),
    dict(name="prod-ic", tu="fwddoms3", what="reduced_numerical_domain_product2<interval_domain, congruence_domain>"),
    dict(name="signconst", tu="fwddoms3", what="sign_constant_domain"),
    dict(name="pow-itv", tu="fwddoms3", what="powerset_domain<interval_domain>"),
    dict(name="bool-itv", tu="fwddoms4", what="flat_boolean_numerical_domain<interval_domain>"),
    dict(name="bool-zones", tu="fwddoms4", what="flat_boolean_numerical_domain<split_dbm_domain>"),
    dict(name="pack", tu="fwddoms4", what="numerical_packing_domain<split_dbm_domain>"),
    dict(name="tvpi", tu="fwddoms4", what="fixed_tvpi_domain<split_dbm_domain>, coefficients {2,3}"),
]
EXCLUDED = {
    "interval_domain": "covered by the model-backed streams fwd-intervals / fwd-verdicts of C01 / C02",
    "wrapped_interval_domain": "machine-integer semantics (wrap-around): not comparable with the mathematical-integer interpreter; C13",
    "array_smashing / array_adaptive / region_domain": "no array / region statements in the textual CFG language; C14 / C15",
    "boxes_domain, apron_domain, elina_domain": "external libraries not built in this tree",
}
NWORKERS = 6
MAX_REPORTS = 2          # per domain and class (oracle / abort)


def sizes(tier):
    """generated programs per domain (the corpus of cfgprog comes on top)"""
    return 60 if tier == "quick" else 1500


def stream_name(dom):
    return "fwd-%s-oracle" % dom


def zid(s):
    return zlib.crc32(s.encode()) % 1000


def programs(seed, tier, prop, dom, n=None):
    """corpus + n generated programs: half plain (widening delay / descending iterations / initial constraints /
    alternative entry blocks chosen by the generator), half with thresholds, liveness pruning and an assumption map"""
    n = n or sizes(tier)
    base = {"asserts": True, "fixed_opts": [("check", 1)]} if prop == "C02" else {}
    s0 = seed + 7 * zid(dom) + (0 if prop == "C01" else 500000)
    lines = cfgprog.gen(s0, tier, n=n - n // 2, opts=dict(base))
    rng = random.Random(s0 + 1)
    q = max(1, (n // 2) // 4)
    k = 0
    for thr, live in ((10, 1), (3, 1), (5, 0), (0, 1)):
        o = dict(base); o["corpus"] = False
        o["fixed_opts"] = list(base.get("fixed_opts", [])) + [("thr", thr), ("live", live)]
        m = q if k < 3 else max(1, n // 2 - 3 * q)
        k += 1
        for l in cfgprog.gen(s0 + 10 + k, tier, n=m, opts=o):
            lines.append(cfgprog.add_assumptions(l, rng, 0.6))
    return lines


# ---------------------------------------------------------------- running the harness

def norm_msg(out_lines):
    m = [x for x in out_lines if x and not x.startswith("R ")]
    t = " ".join(m) if m else "no message (crash)"
    t = t[-400:]
    t = re.sub(r"/\S*/include/crab/", "crab/", t)
    return t.strip()[:300]


def run_cases(exe, mode, lines, path, timeout=900, per_run=120):
    """CRAB_ERROR / crash end the process: the case gets 'ABORT <message>' and the run restarts after it; a run that
    gives no further answer within `per_run` seconds marks its case 'ABORT timeout'"""
    with open(path, "w") as f:
        f.write("\n".join(lines) + "\n")
    res = {}
    start = 0
    t0 = time.time()
    n = len(lines)
    while start < n and time.time() - t0 < timeout:
        rc, out = vlib.sh([exe, "--mode=" + mode, path, str(start)], timeout=max(per_run, 0.5 * (n - start)))
        last = start - 1
        ol = out.split("\n")
        for l in ol:
            if l.startswith("R "):
                sp = l.split(" ", 2)
                try:
                    i = int(sp[1])
                except ValueError:
                    continue
                res[i] = sp[2] if len(sp) > 2 else ""
                last = max(last, i)
        if last + 1 >= n:
            break
        res[last + 1] = "ABORT " + ("timeout (no answer)" if rc == 124 else norm_msg(ol))
        start = last + 2
    return [res.get(i, "MISSING") for i in range(n)]


def is_abort(a):
    return a.startswith("ABORT") or a == "MISSING" or a.startswith("HARNESS")


def match_known(known, stream, line, w):
    for k in known:
        if not fnmatch.fnmatchcase(stream, k.get("stream", "")):
            continue
        if not re.search(k.get("line_regex", ""), line):
            continue
        if k.get("witness_regex") and not re.search(k["witness_regex"], w):
            continue
        return k
    return None


def judge(prop, line, ans):
    if is_abort(ans):
        return "%s: the analysis aborted: %s" % (line, ans)
    if prop == "C01":
        return cfgprog.oracle(line, ans)
    return cfgprog.oracle_verdicts(line, ans)


def nontrivial(prop, line, ans):
    if is_abort(ans):
        return False
    if prop == "C01":
        return cfgprog.nontrivial_loop(line, ans)
    return cfgprog.nontrivial_verdicts(line, ans)


class DomResult:
    def __init__(self):
        self.st = {"cases": 0, "oracle_violations": 0, "aborts": 0, "distinct_nontrivial": 0, "known_finding_hits": 0}
        self.violations = []
        self.known = []


def run_domain(prop, tier, seed, dom, exe, known, n=None, lines=None):
    name = dom["name"]
    stream = stream_name(name)
    res = DomResult()
    st = res.st
    outd = os.path.join(vlib.VERIF, "out", prop)
    lines = lines if lines is not None else programs(seed, tier, prop, name, n)
    t0 = time.time()
    answers = run_cases(exe, name, lines, os.path.join(outd, stream + ".cases"))
    st["harness_s"] = round(time.time() - t0, 1)
    st["cases"] = len(lines)
    nrep = {"oracle": 0, "abort": 0}
    nknown = {}
    opt_count = {"thresholds": 0, "liveness": 0, "alt_entry": 0, "assumptions": 0}
    letters = {}
    for i, (l, a) in enumerate(zip(lines, answers)):
        h = l.split(" | ")[0]
        opt_count["thresholds"] += bool(re.search(r"\bthr=[1-9]", h))
        opt_count["liveness"] += "live=1" in h
        opt_count["alt_entry"] += bool(re.search(r"\bentry=[1-9]", h))
        opt_count["assumptions"] += " | A " in l
        if prop == "C02" and not is_abort(a):
            for v in (cfgprog.parse_verdicts(a) or {}).values():
                for ch in v:
                    letters[ch] = letters.get(ch, 0) + 1
        try:
            w = judge(prop, l, a)
        except Exception as e:
            w = None
            st["oracle_errors"] = st.get("oracle_errors", 0) + 1
            st.setdefault("oracle_error_sample", "%r on %s" % (e, l[:300]))
        if not w:
            if nontrivial(prop, l, a):
                st["distinct_nontrivial"] += 1
            continue
        cls = "abort" if is_abort(a) else "oracle"
        kn = match_known(known, stream, l, w)
        if kn:
            st["known_finding_hits"] += 1
            nknown[kn["what"]] = nknown.get(kn["what"], 0) + 1
            if nknown[kn["what"]] == 1:
                res.known.append("%s [%s; first hit of this class: %s]" % (kn["what"], stream, w[:900]))
            continue
        if cls == "abort":
            st["aborts"] += 1
            c = re.sub(r"\bv\d+\b", "v_", a[6:])[:160]
            st.setdefault("abort_classes", {})
            st["abort_classes"][c] = st["abort_classes"].get(c, 0) + 1
        else:
            st["oracle_violations"] += 1
        nrep[cls] += 1
        if nrep[cls] <= MAX_REPORTS:
            head = ("FAILING INPUT (the forward analysis over the real %s domain aborts, no model involved): " if cls == "abort" else
                    "FAILING INPUT (property oracle on the answer of the forward analyzer over the real %s domain, no model involved): ") % name
            text = (head + w + "\nstream=%s case=%d domain=%s (%s)\ninput: %s\nimplementation: %s\n"
                    "replay: python3 checks/fwddoms.py %s --dom %s --replay '<input>'\n"
                    % (stream, i, name, dom["what"], l, a, prop, name))
            res.violations.append(("%s-%s-%d" % (stream, cls, i), text, True))
    st["configurations"] = opt_count
    if prop == "C02":
        st["verdict_letters"] = letters
    return res


def streams(rep, tier, seed, prop=None, only=None, n=None):
    prop = prop or rep.prop
    t0 = time.time()
    doms = [d for d in DOMAINS if only is None or d["name"] in only]
    tus = sorted(set(d["tu"] for d in doms))
    built = vlib.build_harnesses(tus)
    known = [k for k in vlib.load_known().get("findings", []) if k.get("property") == prop and str(k.get("stream", "")).startswith("fwd-")]
    os.makedirs(os.path.join(vlib.VERIF, "out", prop), exist_ok=True)
    info = rep.cov.setdefault("all_domains_forward", {})
    info["domains"] = {d["name"]: d["what"] for d in doms}
    info["excluded"] = EXCLUDED
    info["programs_per_domain"] = n or sizes(tier)
    info["rule"] = ("per domain: corpus of gen/cfgprog.py, then seeded structured programs (cfgprog.gen); one half with the generator's "
                    "delay / descending iterations / initial constraints / alternative entry block, the other half with max_thresholds in "
                    "{10,3,5,0}, liveness pruning and (60%) an assumption map; non-trivial = " +
                    ("a loop head has a reported invariant that is neither bottom nor top" if prop == "C01" else
                     "some assertion is classified safe or unreachable"))
    for tu in tus:
        if built[tu][1]:
            rep.violation("fwd-doms-%s-build" % tu, "all-domains forward analysis: %s" % built[tu][1], False)
    good = [d for d in doms if not built[d["tu"]][1]]
    for d in doms:
        if d not in good:
            rep.cov["streams"][stream_name(d["name"])] = {"cases": 0, "oracle_violations": 0, "aborts": 0, "distinct_nontrivial": 0}
    results = {}
    with ThreadPoolExecutor(NWORKERS) as ex:
        futs = {d["name"]: ex.submit(run_domain, prop, tier, seed, d, built[d["tu"]][0], known, n) for d in good}
        for name, f in futs.items():
            try:
                results[name] = f.result()
            except Exception as e:      # e.g. the build directory was pruned by a concurrent check
                r = DomResult()
                r.violations.append(("%s-error" % stream_name(name), "forward analysis over %s could not be run: %r" % (name, e), False))
                results[name] = r
    for d in good:
        r = results[d["name"]]
        rep.cov["streams"][stream_name(d["name"])] = r.st
        rep.cov["evaluations"] += r.st["cases"]
        rep.cov["distinct_nontrivial"] = rep.cov.get("distinct_nontrivial", 0) + r.st["distinct_nontrivial"]
        for kf in r.known:
            rep.known_finding(kf)
        for tag, text, wit in r.violations:
            rep.violation(tag, text, wit)
    info["wall_s"] = round(time.time() - t0, 1)


# ---------------------------------------------------------------- shrinking a failing program (triage aid)

def _fmt(head, blocks, edges, extra):
    parts = [head] + ["B %d %s" % (i, " ; ".join(b)) for i, b in enumerate(blocks)]
    parts.append("E " + " ".join("%d %d" % e for e in edges))
    return " | ".join(parts + extra)


def _split(line):
    secs = [s.strip() for s in line.split(" | ")]
    head = secs[0]
    nb = int(head.split()[1])
    blocks = [[] for _ in range(nb)]; edges = []; extra = []
    for s in secs[1:]:
        t = s.split()
        if not t:
            continue
        if t[0] == "B":
            blocks[int(t[1])] = [x.strip() for x in " ".join(t[2:]).split(" ; ") if x.strip()]
        elif t[0] == "E":
            v = list(map(int, t[1:])); edges = list(zip(v[0::2], v[1::2]))
        else:
            extra.append(s)
    return head, blocks, edges, extra


def shrink(line, still_fails, budget=400):
    """greedy reduction: drop I / A sections, header options, edges, statements (assert statements keep their ids), then
    unused trailing blocks; `still_fails(line)` decides"""
    head, blocks, edges, extra = _split(line)
    cur = _fmt(head, blocks, edges, extra)
    calls = [0]

    def attempt(h, b, e, x):
        if calls[0] >= budget:
            return False
        calls[0] += 1
        return still_fails(_fmt(h, b, e, x))
    changed = True
    while changed and calls[0] < budget:
        changed = False
        for i in range(len(extra) - 1, -1, -1):
            x2 = extra[:i] + extra[i + 1:]
            if attempt(head, blocks, edges, x2):
                extra = x2; changed = True
        ht = head.split()
        for i in range(len(ht) - 1, 3, -1):
            if ht[i].startswith(("check=", "nasserts=")):
                continue
            h2 = " ".join(ht[:i] + ht[i + 1:])
            if attempt(h2, blocks, edges, extra):
                head = h2; ht = head.split(); changed = True
        for i in range(len(edges) - 1, -1, -1):
            e2 = edges[:i] + edges[i + 1:]
            if attempt(head, blocks, e2, extra):
                edges = e2; changed = True
        for bi in range(len(blocks)):
            for si in range(len(blocks[bi]) - 1, -1, -1):
                b2 = [list(b) for b in blocks]
                del b2[bi][si]
                if attempt(head, b2, edges, extra):
                    blocks = b2; changed = True
        # drop the last block when nothing refers to it
        while len(blocks) > 1:
            last = len(blocks) - 1
            ht = head.split()
            if blocks[last] or any(last in e for e in edges) or int(ht[3]) == last or any(x.split()[:2] == ["A", str(last)] for x in extra) \
                    or ("entry=%d" % last) in ht:
                break
            h2 = " ".join([ht[0], str(last)] + ht[2:])
            if attempt(h2, blocks[:-1], edges, extra):
                head = h2; blocks = blocks[:-1]; changed = True
            else:
                break
    return _fmt(head, blocks, edges, extra)


class _Rep:
    """stand-alone report for the command line"""
    def __init__(self, prop):
        self.prop = prop
        self.cov = {"streams": {}, "evaluations": 0, "distinct_nontrivial": 0}
        self.v = []; self.k = []

    def violation(self, tag, text, w):
        self.v.append((tag, text))

    def known_finding(self, what):
        self.k.append(what)


if __name__ == "__main__":
    import argparse, json
    ap = argparse.ArgumentParser()
    ap.add_argument("prop", choices=["C01", "C02"])
    ap.add_argument("--dom", default=None)
    ap.add_argument("--n", type=int, default=None)
    ap.add_argument("--seed", type=int, default=20260925)
    ap.add_argument("--tier", default="quick")
    ap.add_argument("--replay", help="a program line (text) or a replay file holding 'input: <line>': run it on --dom")
    ap.add_argument("--shrink", action="store_true", help="with --replay: reduce the program first (same class of oracle message)")
    a = ap.parse_args()
    if os.environ.get("FWDDOMS_PRIVATE_BUILD", "1") == "1":
        # exploration from the command line: a private build cache (concurrent checks prune build/impl-*)
        vlib.BUILD = os.path.join(vlib.VERIF, "build", "fwddoms-scratch")
    if a.replay:
        line = a.replay
        if os.path.exists(line):
            m = re.search(r"(?m)^input: (.*)$", open(line).read())
            line = m.group(1).strip() if m else open(a.replay).read().strip().split("\n")[0]
        os.makedirs(os.path.join(vlib.VERIF, "out", a.prop), exist_ok=True)
        rc = 0
        for dn in (a.dom or ",".join(d["name"] for d in DOMAINS)).split(","):
            dom = [d for d in DOMAINS if d["name"] == dn][0]
            exe, err = vlib.build_harness(dom["tu"])
            if err:
                print(err); sys.exit(2)
            sc = os.path.join(vlib.VERIF, "out", a.prop, "fwd-%s-replay.cases" % dn)
            ans = run_cases(exe, dn, [line], sc, per_run=20)[0]
            w = judge(a.prop, line, ans)
            if a.shrink and w:
                cls = lambda w, x: ("abort:" + re.sub(r"\d+", "", x[:60])) if is_abort(x) else re.sub(r"b?\d+|\[.*?\]", "", w.split(": ", 1)[1])[:40]
                c0 = cls(w, ans)

                def still(l2):
                    a2 = run_cases(exe, dn, [l2], sc, per_run=20)[0]
                    w2 = judge(a.prop, l2, a2)
                    return bool(w2) and cls(w2, a2) == c0
                line = shrink(line, still)
                ans = run_cases(exe, dn, [line], sc, per_run=20)[0]
                w = judge(a.prop, line, ans)
            print("== %s\ninput:          %s\nimplementation: %s\noracle:         %s" % (dn, line, ans, w if w else "no violation found"))
            rc = rc or (1 if w else 0)
        sys.exit(rc)
    rep = _Rep(a.prop)
    t = time.time()
    streams(rep, a.tier, a.seed, a.prop, only=a.dom.split(",") if a.dom else None, n=a.n)
    for name, st in rep.cov["streams"].items():
        print(name, json.dumps(st)[:700])
    for k in rep.k:
        print("KNOWN:", k[:600])
    for tag, text in rep.v:
        print("VIOLATION", tag)
        print("   " + "\n   ".join(text.split("\n")[:4]))
    print("wall %.1f s, %d evaluations, %d non-trivial, %d violations, %d known" % (time.time() - t, rep.cov["evaluations"], rep.cov["distinct_nontrivial"], len(rep.v), len(rep.k)))
