"""C01 / C02 over every native numerical domain at the level of the forward analyzer (oracle only, no model).

harness/fwddoms{1,2,3,4,5}.cpp run intra_fwd_analyzer<cfg_ref, Dom> (and, with check=1, intra_checker +
assert_property_checker) for --mode=<dom> on the textual CFG programs of gen/cfgprog.py, printing the same
tables as harness/fwditv.cpp; the concrete interpreter of gen/cfgprog.py judges every answer:
  C01 (checks/C01_doms.py)  cfgprog.oracle           every state of a concrete execution is inside the reported invariant
  C02 (checks/C02_doms.py)  cfgprog.oracle_verdicts  no execution refutes a 'safe' / 'unreachable' verdict
Per domain: the corpus of cfgprog, then generated programs; half of them with widening thresholds, liveness-based
pruning, (the generator's) alternative entry blocks and an assumption map.  An abort (CRAB_ERROR, crash, no answer
within the time limit) is a violation of its own class.  Hits are matched against known_findings.json (entries of
the check's property whose `stream` matches the stream name fwd-<dom>-oracle as a glob pattern, `line_regex` on the
program, `witness_regex` on the oracle text) and reported as known findings; anything else is a violation (at most
2 per domain and class) with the program, the implementation's answer and the violating execution.

Command line (exploration / replay):
  python3 checks/fwddoms.py C01 [--dom zones,oct] [--n 200] [--seed S] [--tier quick]
  python3 checks/fwddoms.py C02 --dom tvpi --replay '<program line>'"""
import os, re, sys, time, random, zlib, fnmatch
from concurrent.futures import ThreadPoolExecutor
_V = os.path.dirname(os.path.dirname(os.path.abspath(__file__)))
for _p in ("bin", "gen", "checks"):
    if os.path.join(_V, _p) not in sys.path:
        sys.path.insert(0, os.path.join(_V, _p))
import vlib, cfgprog

# name, translation unit, what it is
DOMAINS = [
    dict(name="zones", tu="fwddoms1", what="split_dbm_domain, DefaultParams"),
    dict(name="zones-safe", tu="fwddoms1", what="split_dbm_domain, SafeInt64DefaultParams"),
    dict(name="sparse", tu="fwddoms1", what="sparse_dbm_domain"),
    dict(name="ref-zones", tu="fwddoms1", what="abstract_domain_ref<z_var> around split_dbm_domain"),
    dict(name="oct", tu="fwddoms2", what="split_oct_domain"),
    dict(name="look-oct", tu="fwddoms2", what="lookahead_widening_domain<split_oct_domain>"),
    dict(name="term-itv", tu="fwddoms2", what="term_domain over interval_domain"),
    dict(name="term-zones", tu="fwddoms2", what="term_domain over split_dbm_domain"),
    dict(name="disitv", tu="fwddoms3", what="dis_interval_domain"),
    dict(name="cong", tu="fwddoms3", what="congruence_domain"),
    dict(name="ric", tu="fwddoms3", what="numerical_congruence_domain<interval_domain>"),
    dict(name="prod-ic", tu="fwddoms3", what="reduced_numerical_domain_product2<interval_domain, congruence_domain>"),
    dict(name="signconst", tu="fwddoms3", what="sign_constant_domain"),
    dict(name="pow-itv", tu="fwddoms3", what="powerset_domain<interval_domain>"),
    dict(name="bool-itv", tu="fwddoms4", what="flat_boolean_numerical_domain<interval_domain>", bools=True),
    dict(name="bool-zones", tu="fwddoms4", what="flat_boolean_numerical_domain<split_dbm_domain>", bools=True),
    dict(name="pack", tu="fwddoms4", what="numerical_packing_domain<split_dbm_domain>"),
    dict(name="tvpi", tu="fwddoms4", what="fixed_tvpi_domain<split_dbm_domain>, coefficients {2,3}"),
    dict(name="sign", tu="fwddoms5", what="sign_domain"),
    dict(name="const", tu="fwddoms5", what="constant_domain"),
    dict(name="uf", tu="fwddoms5", what="uf_domain (at() knows nothing: only bottom / reachability is observable)"),
    dict(name="num", tu="fwddoms5", what="reduced_numerical_domain_product2<term_domain<dis_interval_domain>, split_dbm_domain>"),
    dict(name="pow-zones", tu="fwddoms5", what="powerset_domain<split_dbm_domain>"),
    dict(name="gen-zones", tu="fwddoms5", what="abstract_domain<z_var> around split_dbm_domain"),
]
EXCLUDED = {
    "interval_domain": "covered by the model-backed streams fwd-intervals / fwd-verdicts of C01 / C02",
    "wrapped_interval_domain": "machine-integer semantics (wrap-around): not comparable with the mathematical-integer interpreter; C13",
    "array_smashing / array_adaptive / region_domain": "no array / region statements in the textual CFG language; C14 / C15",
    "boxes_domain, apron_domain, elina_domain": "external libraries not built in this tree",
}
NWORKERS = 6
MAX_REPORTS = 2          # per domain and class (oracle / abort)


def sizes(tier):
    """generated programs per domain (the corpus of cfgprog comes on top)"""
    return 60 if tier == "quick" else 1500


def stream_name(dom):
    return "fwd-%s-oracle" % dom


def zid(s):
    return zlib.crc32(s.encode()) % 1000


# Hand-made programs run on every domain after the corpus of cfgprog.  (C01, C02) variants.
EXTRA_CORPUS = {
    "C01": [
        # fixed_tvpi_domain, integer ghost variables x/2, y/2 (known finding): x, y, z unknown to the analysis, -1 on one path each;
        # x < 0, y < 0, 2z - x - y <= 0  gave z <= -2 although (-1,-1,-1) passes
        "cfg 11 3 10 | B 0  | B 1 assign 0 E 0 -1 | B 2 havoc 0 | B 3  | B 4 assign 1 E 0 -1 | B 5 havoc 1 | B 6  | B 7 assign 2 E 0 -1 | B 8 havoc 2 | B 9  | "
        "B 10 assume C lt E 1 1 0 0 ; assume C lt E 1 1 1 0 ; assume C le E 3 -1 0 -1 1 2 2 0 | E 0 1 0 2 1 3 2 3 3 4 3 5 4 6 5 6 6 7 6 8 7 9 8 9 9 10",
        # 1000x + 1000 = 0, x < 0 gave bottom although x = -1
        "cfg 5 1 4 | B 0  | B 1 assign 0 E 0 -1 | B 2 havoc 0 | B 3 assume C eq E 1 1000 0 1000 ; assume C lt E 1 1 0 0 | B 4  | E 0 1 0 2 1 3 2 3 3 4",
        # unbounded loops analysed with widening thresholds (a widening_thresholds that does not extrapolate never terminates)
        "cfg 4 1 3 delay=1 desc=1 thr=5 | B 0 assign 0 E 0 0 | B 1  | B 2 arith add 0 0 k 1 | B 3  | E 0 1 1 2 2 1 1 3",
        "cfg 4 2 3 delay=2 desc=2 thr=10 live=1 | B 0 assign 0 E 0 0 ; assign 1 E 0 0 | B 1  | B 2 assume C le E 1 1 0 -9 ; arith add 0 0 k 1 ; arith add 1 1 k 2 | B 3 assume C le E 1 -1 0 10 | E 0 1 1 2 2 1 1 3",
        # numerical_packing: a pack left at bottom by a division by zero (fwddoms-1)
        "cfg 2 2 1 | B 0 arith sdiv 0 1 k 0 ; arith add 0 1 v 1 | B 1  | E 0 1",
        "cfg 4 2 3 | B 0  | B 1 arith add 0 1 k 7 | B 2 assume C le E 1 1 0 -5 ; arith srem 1 1 k 0 | B 3  | E 0 1 0 2 1 3 2 3",
        # numerical_packing: inclusion test on values with different packs, loop entered in the middle (fwddoms-2: no termination)
        "cfg 3 2 1 entry=1 | B 0  | B 1 assume C le E 1 -1 1 10 | B 2 assign 1 E 2 3 0 -2 1 10 | E 0 2 2 1 1 0",
    ],
    "C02": [
        "cfg 11 3 10 check=1 nasserts=1 | B 0  | B 1 assign 0 E 0 -1 | B 2 havoc 0 | B 3  | B 4 assign 1 E 0 -1 | B 5 havoc 1 | B 6  | B 7 assign 2 E 0 -1 | B 8 havoc 2 | B 9  | "
        "B 10 assume C lt E 1 1 0 0 ; assume C lt E 1 1 1 0 ; assume C le E 3 -1 0 -1 1 2 2 0 ; assert C le E 1 1 2 2 1 | E 0 1 0 2 1 3 2 3 3 4 3 5 4 6 5 6 6 7 6 8 7 9 8 9 9 10",
        "cfg 5 1 4 check=1 nasserts=1 | B 0  | B 1 assign 0 E 0 -1 | B 2 havoc 0 | B 3 assume C eq E 1 1000 0 1000 ; assume C lt E 1 1 0 0 | B 4 assert C le E 1 1 0 5 1 | E 0 1 0 2 1 3 2 3 3 4",
        "cfg 4 1 3 delay=1 desc=1 thr=5 check=1 nasserts=2 | B 0 assign 0 E 0 0 | B 1  | B 2 arith add 0 0 k 1 ; assert C le E 1 -1 0 0 1 | B 3 assert C le E 1 -1 0 0 2 | E 0 1 1 2 2 1 1 3",
        "cfg 4 2 3 delay=2 desc=2 thr=10 live=1 check=1 nasserts=2 | B 0 assign 0 E 0 0 ; assign 1 E 0 0 | B 1  | B 2 assume C le E 1 1 0 -9 ; arith add 0 0 k 1 ; arith add 1 1 k 2 ; assert C le E 1 -1 1 0 1 | B 3 assume C le E 1 -1 0 10 ; assert C le E 1 -1 1 19 2 | E 0 1 1 2 2 1 1 3",
        "cfg 2 2 1 check=1 nasserts=1 | B 0 arith sdiv 0 1 k 0 ; arith add 0 1 v 1 | B 1 assert C le E 1 1 0 0 1 | E 0 1",
        "cfg 4 2 3 check=1 nasserts=1 | B 0  | B 1 arith add 0 1 k 7 | B 2 assume C le E 1 1 0 -5 ; arith srem 1 1 k 0 | B 3 assert C le E 2 1 0 -1 1 -7 1 | E 0 1 0 2 1 3 2 3",
        "cfg 3 2 1 entry=1 check=1 nasserts=1 | B 0 assert C le E 1 -1 1 10 1 | B 1 assume C le E 1 -1 1 10 | B 2 assign 1 E 2 3 0 -2 1 10 | E 0 2 2 1 1 0",
    ],
}
HAS_BOOL = re.compile(r"(?:^|[ ;|])(?:%s) " % "|".join(cfgprog.BOOL_OPS))


def programs(seed, tier, prop, dom, n=None, bools=False):
    """corpus + n generated programs: half plain (widening delay / descending iterations / initial constraints /
    alternative entry blocks chosen by the generator), half with thresholds, liveness pruning and an assumption map"""
    n = n or sizes(tier)
    base = {"asserts": True, "fixed_opts": [("check", 1)]} if prop == "C02" else {}
    s0 = seed + 7 * zid(dom) + (0 if prop == "C01" else 500000)
    lines = cfgprog.gen(s0, tier, n=n - n // 2, opts=dict(base))
    lines[len(cfgprog.CORPUS):len(cfgprog.CORPUS)] = EXTRA_CORPUS[prop]
    rng = random.Random(s0 + 1)
    q = max(1, (n // 2) // 4)
    k = 0
    for thr, live in ((10, 1), (3, 1), (5, 0), (0, 1)):
        o = dict(base); o["corpus"] = False
        o["fixed_opts"] = list(base.get("fixed_opts", [])) + [("thr", thr), ("live", live)]
        m = q if k < 3 else max(1, n // 2 - 3 * q)
        k += 1
        for l in cfgprog.gen(s0 + 10 + k, tier, n=m, opts=o):
            lines.append(cfgprog.add_assumptions(l, rng, 0.6))
    # boxes built by joins, then constraints over two / three variables (relational transfer functions)
    lines += relational_programs(s0 + 50, max(4, n // 4), prop)
    if tier != "quick":
        # constants around 2^31 and 2^62
        lines += relational_programs(s0 + 60, max(4, n // 8), prop, big=True)
    # boolean statements: many for the domains that interpret them (flat_boolean_numerical_domain), a few for the
    # others (no-ops there, except b := constraint ... x := zext(b), that must not leave stale facts)
    m = n // 2 if bools else max(3, n // 12)
    o = dict(base); o["corpus"] = False
    bl = cfgprog.gen(s0 + 70, tier, n=m - m // 2, opts=o)
    o["fixed_opts"] = list(base.get("fixed_opts", [])) + [("thr", 5), ("live", 1)]
    bl += cfgprog.gen(s0 + 71, tier, n=m // 2, opts=o)
    lines += [cfgprog.add_bool_stmts(cfgprog.add_assumptions(l, rng, 0.2), rng, asserts=(prop == "C02")) for l in bl]
    return lines


BIG = [2 ** 62, -(2 ** 62), 2 ** 62 - 1, 2 ** 61, -(2 ** 61) - 3, 2 ** 31, -(2 ** 31), 2 ** 32 + 1]


def relational_programs(seed, n, prop, big=False):
    """every variable gets one of two constants (or a constant / an unknown value) in a diamond (so that every combination
    is the store of some execution and the domain only knows a box, or the relations it can express, after the joins), then one to three assumptions over
    two or three variables with coefficients in {1,2,3,5,7,1000} (where relational domains decompose / tighten
    constraints), then assignments that copy the result around; optionally inside a loop that is left through a counter.
    big=True: constants around 2^31 / 2^62 (graph domains on int64 weights)"""
    rng = random.Random(seed)
    out = []
    consts = [-1, -1, 1, 0, 2, 3, -3, 4, 5, -5, 7, 12, 15, 17, 18, -100]
    for _ in range(n):
        nv = rng.randint(2, 4)
        blocks = [[]]; edges = []
        cur = 0
        loop = rng.random() < 0.3
        if loop:
            cnt = nv; nv += 1
            blocks[0].append("assign %d E 0 0" % cnt)
            h = len(blocks); blocks.append([]); edges.append((0, h)); cur = h
            body = len(blocks); blocks.append(["assume C le E 1 1 %d %d" % (cnt, -2)])          # cnt <= 2
            ex = len(blocks); blocks.append(["assume C le E 1 -1 %d %d" % (cnt, 3)])            # cnt >= 3
            edges.extend([(h, body), (h, ex)]); cur = body
        for v in range(nv - (1 if loop else 0)):
            pool = BIG if (big and rng.random() < 0.5) else consts
            c1, c2 = rng.choice(pool), rng.choice(pool)
            t, f, j = len(blocks), len(blocks) + 1, len(blocks) + 2
            # one branch may leave the variable unknown: the domain then starts from top for it, the executions
            # through the other branch still concentrate on the small constant
            blocks.extend([["assign %d E 0 %d" % (v, c1)], ["havoc %d" % v] if rng.random() < 0.35 else ["assign %d E 0 %d" % (v, c2)], []])
            edges.extend([(cur, t), (cur, f), (t, j), (f, j)]); cur = j
        nvv = nv - (1 if loop else 0)
        g = len(blocks); blocks.append([]); edges.append((cur, g)); cur = g
        for _k in range(rng.randint(1, 3)):
            m = min(nvv, rng.choice([1, 2, 2, 3]))
            vs = sorted(rng.sample(range(nvv), m))
            coefs = [rng.choice([1, -1, 1, -1, 2, -2, 3, -3, 5, -5, 7, 1000] + ([2 ** 31, -(2 ** 62)] if big else [])) for _v in vs]
            k = rng.choice(BIG if (big and rng.random() < 0.3) else [0, 0, 1, -1, 2, 3, -3, 5, 10, -7, 1000])
            kind = rng.choice(["le", "le", "le", "eq", "lt", "ne"])
            blocks[g].append("assume C %s E %d %s %d" % (kind, m, " ".join("%d %d" % cv for cv in zip(coefs, vs)), k))
        for _k in range(rng.randint(0, 2)):
            blocks[g].append(cfgprog.rand_stmt(rng, nvv, allow=("assign", "arith", "select")))
        na = 0
        if prop == "C02":
            for _k in range(rng.randint(1, 2)):
                na += 1
                c = cfgprog.gen_cst(rng, nvv, kinds=("le", "le", "eq", "ne", "lt"), small=True, maxterms=2)
                blocks[g].append("assert %s %d" % (cfgprog.fmt_cst(c), na))
        if loop:
            blocks[g].append("arith add %d %d k 1" % (cnt, cnt)); edges.append((g, h)); last = ex
        else:
            last = g
        po = [("delay", rng.choice([0, 1, 2])), ("desc", rng.choice([0, 1, 2])), ("thr", rng.choice([0, 0, 5])), ("live", rng.choice([0, 1]))]
        if prop == "C02":
            po += [("check", 1), ("nasserts", na)]
        out.append(cfgprog.fmt_program("cfg %d %d %d" % (len(blocks), nv, last), blocks, edges, po))
    return out


# ---------------------------------------------------------------- running the harness

def norm_msg(out_lines):
    m = [x for x in out_lines if x and not x.startswith("R ")]
    t = " ".join(m) if m else "no message (crash)"
    t = t[-400:]
    t = re.sub(r"/\S*/include/crab/", "crab/", t)
    return t.strip()[:300]


def run_cases(exe, mode, lines, path, timeout=900, per_run=40, max_timeouts=3):
    """CRAB_ERROR / crash end the process: the case gets 'ABORT <message>' and the run restarts after it; a run that
    gives no further answer within `per_run` seconds marks its case 'ABORT timeout' (after `max_timeouts` of them the
    remaining cases are not run: 'SKIPPED')"""
    with open(path, "w") as f:
        f.write("\n".join(lines) + "\n")
    res = {}
    start = 0
    t0 = time.time()
    n = len(lines)
    ntimeouts = 0
    while start < n and time.time() - t0 < timeout:
        rc, out = vlib.sh([exe, "--mode=" + mode, path, str(start)], timeout=max(per_run, 0.5 * (n - start)))
        last = start - 1
        ol = out.split("\n")
        if rc != 0 and ol and ol[-1].startswith("R "):
            ol.pop()             # the process was stopped while writing this answer
        for l in ol:
            if l.startswith("R "):
                sp = l.split(" ", 2)
                try:
                    i = int(sp[1])
                except ValueError:
                    continue
                res[i] = sp[2] if len(sp) > 2 else ""
                last = max(last, i)
        if last + 1 >= n:
            break
        if rc == 124:
            # the whole batch ran out of time (loaded machine?): the case alone gets the full time limit once more
            with open(path + ".one", "w") as f:
                f.write(lines[last + 1] + "\n")
            rc1, out1 = vlib.sh([exe, "--mode=" + mode, path + ".one"], timeout=per_run)
            a1 = [x for x in out1.split("\n") if x.startswith("R 0")]
            if rc1 == 0 and a1:
                res[last + 1] = a1[0].split(" ", 2)[2] if len(a1[0].split(" ", 2)) > 2 else ""
                start = last + 2
                continue
        res[last + 1] = "ABORT " + ("timeout (no answer)" if rc == 124 else norm_msg(ol))
        start = last + 2
        if rc == 124:
            ntimeouts += 1
            if ntimeouts >= max_timeouts:
                for i in range(start, n):
                    res[i] = "SKIPPED"
                break
    return [res.get(i, "MISSING") for i in range(n)]


def is_abort(a):
    return a.startswith("ABORT") or a == "MISSING" or a.startswith("HARNESS")


def match_known(known, stream, line, w):
    for k in known:
        if not fnmatch.fnmatchcase(stream, k.get("stream", "")):
            continue
        if k.get("domains") and stream[len("fwd-"):-len("-oracle")] not in k["domains"]:
            continue
        if not re.search(k.get("line_regex", ""), line):
            continue
        if k.get("witness_regex") and not re.search(k["witness_regex"], w):
            continue
        return k
    return None


def judge(prop, line, ans):
    if is_abort(ans):
        return "%s: the analysis aborted: %s" % (line, ans)
    if HAS_BOOL.search(line):
        return cfgprog.oracle_ext(line, ans) if prop == "C01" else cfgprog.oracle_verdicts_ext(line, ans)
    if prop == "C01":
        return cfgprog.oracle(line, ans)
    return cfgprog.oracle_verdicts(line, ans)


def nontrivial(prop, line, ans):
    if is_abort(ans):
        return False
    if prop == "C01":
        return cfgprog.nontrivial_loop(line, ans)
    return cfgprog.nontrivial_verdicts(line, ans)


class DomResult:
    def __init__(self):
        self.st = {"cases": 0, "oracle_violations": 0, "aborts": 0, "distinct_nontrivial": 0, "known_finding_hits": 0}
        self.violations = []
        self.known = []


def run_domain(prop, tier, seed, dom, exe, known, n=None, lines=None):
    name = dom["name"]
    stream = stream_name(name)
    res = DomResult()
    st = res.st
    outd = os.path.join(vlib.VERIF, "out", prop)
    lines = lines if lines is not None else programs(seed, tier, prop, name, n, bools=dom.get("bools", False))
    t0 = time.time()
    answers = run_cases(exe, name, lines, os.path.join(outd, stream + (".replay" if len(lines) == 1 else "") + ".cases"))
    st["harness_s"] = round(time.time() - t0, 1)
    st["cases"] = len(lines)
    nrep = {"oracle": 0, "abort": 0, "timeout": 0}
    nknown = {}
    opt_count = {"thresholds": 0, "liveness": 0, "alt_entry": 0, "assumptions": 0, "boolean_statements": 0}
    letters = {}
    for i, (l, a) in enumerate(zip(lines, answers)):
        h = l.split(" | ")[0]
        opt_count["thresholds"] += bool(re.search(r"\bthr=[1-9]", h))
        opt_count["liveness"] += "live=1" in h
        opt_count["alt_entry"] += bool(re.search(r"\bentry=[1-9]", h))
        opt_count["assumptions"] += " | A " in l
        opt_count["boolean_statements"] += bool(HAS_BOOL.search(l))
        if prop == "C02" and not is_abort(a):
            for v in (cfgprog.parse_verdicts(a) or {}).values():
                for ch in v:
                    letters[ch] = letters.get(ch, 0) + 1
        if a == "SKIPPED":
            st["skipped_after_timeouts"] = st.get("skipped_after_timeouts", 0) + 1
            continue
        try:
            w = judge(prop, l, a)
        except Exception as e:
            w = None
            st["oracle_errors"] = st.get("oracle_errors", 0) + 1
            st.setdefault("oracle_error_sample", "%r on %s" % (e, l[:300]))
        if not w:
            try:
                st["distinct_nontrivial"] += bool(nontrivial(prop, l, a))
            except Exception:
                pass
            continue
        cls = ("timeout" if "timeout (no answer)" in a else "abort") if is_abort(a) else "oracle"
        kn = match_known(known, stream, l, w)
        if kn:
            st["known_finding_hits"] += 1
            nknown[kn["what"]] = nknown.get(kn["what"], 0) + 1
            if nknown[kn["what"]] == 1:
                res.known.append((kn["what"], w))
            continue
        if cls != "oracle":
            st["aborts"] += 1
            c = re.sub(r"\bv\d+\b", "v_", a[6:])[:160]
            st.setdefault("abort_classes", {})
            st["abort_classes"][c] = st["abort_classes"].get(c, 0) + 1
        else:
            st["oracle_violations"] += 1
        nrep[cls] += 1
        if nrep[cls] <= MAX_REPORTS:
            head = {"abort": "FAILING INPUT (the forward analysis over the real %s domain aborts, no model involved): ",
                    "timeout": "FAILING INPUT (the forward analysis over the real %s domain gives no answer within the time limit (no termination?), no model involved): ",
                    "oracle": "FAILING INPUT (property oracle on the answer of the forward analyzer over the real %s domain, no model involved): "}[cls] % name
            text = (head + w + "\nstream=%s case=%d domain=%s (%s)\ninput: %s\nimplementation: %s\n"
                    "replay: python3 checks/fwddoms.py %s --dom %s --replay '<input>'\n"
                    % (stream, i, name, dom["what"], l, a, prop, name))
            res.violations.append(("%s-%s-%d" % (stream, cls, i), text, True))
    res.known = [(what, w, nknown[what]) for what, w in res.known]
    st["configurations"] = opt_count
    if prop == "C02":
        st["verdict_letters"] = letters
    return res


def streams(rep, tier, seed, prop=None, only=None, n=None):
    prop = prop or rep.prop
    t0 = time.time()
    replay_line = None
    if getattr(vlib, "REPLAY", None) is not None:
        # bin/check <id> --replay <file>: only the recorded program, on the domain of the recorded stream
        m = re.match(r"fwd-(.+)-oracle$", vlib.REPLAY[0])
        if not m or m.group(1) not in [d["name"] for d in DOMAINS]:
            return
        only, replay_line = [m.group(1)], [vlib.REPLAY[1]]
    doms = [d for d in DOMAINS if only is None or d["name"] in only]
    tus = sorted(set(d["tu"] for d in doms))
    built = vlib.build_harnesses(tus)
    known = [k for k in vlib.load_known().get("findings", []) if k.get("property") == prop and str(k.get("stream", "")).startswith("fwd-")]
    os.makedirs(os.path.join(vlib.VERIF, "out", prop), exist_ok=True)
    info = rep.cov.setdefault("all_domains_forward", {})
    info["domains"] = {d["name"]: d["what"] for d in doms}
    info["excluded"] = EXCLUDED
    info["programs_per_domain"] = n or sizes(tier)
    info["rule"] = ("per domain: corpus of gen/cfgprog.py, then seeded structured programs (cfgprog.gen); one half with the generator's "
                    "delay / descending iterations / initial constraints / alternative entry block, the other half with max_thresholds in "
                    "{10,3,5,0}, liveness pruning and (60%) an assumption map; non-trivial = " +
                    ("a loop head has a reported invariant that is neither bottom nor top" if prop == "C01" else
                     "some assertion is classified safe or unreachable"))
    for tu in tus:
        if built[tu][1]:
            rep.violation("fwd-doms-%s-build" % tu, "all-domains forward analysis: %s" % built[tu][1], False)
    good = [d for d in doms if not built[d["tu"]][1]]
    for d in doms:
        if d not in good:
            rep.cov["streams"][stream_name(d["name"])] = {"cases": 0, "oracle_violations": 0, "aborts": 0, "distinct_nontrivial": 0}
    results = {}
    with ThreadPoolExecutor(NWORKERS) as ex:
        futs = {d["name"]: ex.submit(run_domain, prop, tier, seed, d, built[d["tu"]][0], known, n, replay_line) for d in good}
        for name, f in futs.items():
            try:
                results[name] = f.result()
            except Exception as e:      # e.g. the build directory was pruned by a concurrent check
                import traceback
                r = DomResult()
                r.violations.append(("%s-error" % stream_name(name), "forward analysis over %s could not be run: %r\n%s"
                                     % (name, e, "".join(traceback.format_exception(type(e), e, e.__traceback__))[-1500:]), False))
                results[name] = r
    known_all = {}
    for d in good:
        r = results[d["name"]]
        rep.cov["streams"][stream_name(d["name"])] = r.st
        rep.cov["evaluations"] += r.st["cases"]
        rep.cov["distinct_nontrivial"] = rep.cov.get("distinct_nontrivial", 0) + r.st["distinct_nontrivial"]
        for what, w, cnt in r.known:
            kf = known_all.setdefault(what, {"streams": [], "first": "%s: %s" % (stream_name(d["name"]), w)})
            kf["streams"].append("%s (%d)" % (stream_name(d["name"]), cnt))
        for tag, text, wit in r.violations:
            rep.violation(tag, text, wit)
    # one report per known finding, with the streams (domains) it was met in
    for what, kf in known_all.items():
        rep.known_finding("%s [hits: %s; first hit: %s]" % (what, ", ".join(kf["streams"]), kf["first"][:1200]))
    info["wall_s"] = round(time.time() - t0, 1)


# ---------------------------------------------------------------- shrinking a failing program (triage aid)

def _fmt(head, blocks, edges, extra):
    parts = [head] + ["B %d %s" % (i, " ; ".join(b)) for i, b in enumerate(blocks)]
    parts.append("E " + " ".join("%d %d" % e for e in edges))
    return " | ".join(parts + extra)


def _split(line):
    secs = [s.strip() for s in line.split(" | ")]
    head = secs[0]
    nb = int(head.split()[1])
    blocks = [[] for _ in range(nb)]; edges = []; extra = []
    for s in secs[1:]:
        t = s.split()
        if not t:
            continue
        if t[0] == "B":
            blocks[int(t[1])] = [x.strip() for x in " ".join(t[2:]).split(" ; ") if x.strip()]
        elif t[0] == "E":
            v = list(map(int, t[1:])); edges = list(zip(v[0::2], v[1::2]))
        else:
            extra.append(s)
    return head, blocks, edges, extra


def shrink(line, still_fails, budget=400):
    """greedy reduction: drop I / A sections, header options, edges, statements (assert statements keep their ids), then
    unused trailing blocks; `still_fails(line)` decides"""
    head, blocks, edges, extra = _split(line)
    cur = _fmt(head, blocks, edges, extra)
    calls = [0]

    def attempt(h, b, e, x):
        if calls[0] >= budget:
            return False
        calls[0] += 1
        return still_fails(_fmt(h, b, e, x))
    changed = True
    while changed and calls[0] < budget:
        changed = False
        for i in range(len(extra) - 1, -1, -1):
            x2 = extra[:i] + extra[i + 1:]
            if attempt(head, blocks, edges, x2):
                extra = x2; changed = True
        ht = head.split()
        for i in range(len(ht) - 1, 3, -1):
            if ht[i].startswith(("check=", "nasserts=")):
                continue
            h2 = " ".join(ht[:i] + ht[i + 1:])
            if attempt(h2, blocks, edges, extra):
                head = h2; ht = head.split(); changed = True
        for i in range(len(edges) - 1, -1, -1):
            e2 = edges[:i] + edges[i + 1:]
            if attempt(head, blocks, e2, extra):
                edges = e2; changed = True
        for bi in range(len(blocks)):
            for si in range(len(blocks[bi]) - 1, -1, -1):
                b2 = [list(b) for b in blocks]
                del b2[bi][si]
                if attempt(head, b2, edges, extra):
                    blocks = b2; changed = True
        # contract an empty block (predecessors get its successors), renumbering the blocks above it
        bi = len(blocks) - 1
        while bi >= 1 and calls[0] < budget:
            ht = head.split()
            m = re.search(r"(?:^| )entry=(\d+)", head)
            ent = int(m.group(1)) if m else 0
            if blocks[bi] or int(ht[3]) == bi or ent == bi or any(x.split()[:2] == ["A", str(bi)] for x in extra):
                bi -= 1; continue
            preds = [a for a, b in edges if b == bi and a != bi]; succs = [b for a, b in edges if a == bi and b != bi]
            e2 = []
            for (a, b) in edges:
                if a == bi or b == bi:
                    if b == bi and a != bi:
                        for s2 in succs:
                            if (a, s2) not in e2: e2.append((a, s2))
                    continue
                if (a, b) not in e2: e2.append((a, b))
            rn = lambda v: v - 1 if v > bi else v
            e2 = [(rn(a), rn(b)) for a, b in e2]
            h2 = [ht[0], str(len(blocks) - 1), ht[2], str(rn(int(ht[3])))] + [("entry=%d" % rn(ent)) if t.startswith("entry=") else t for t in ht[4:]]
            x2 = [(" ".join(["A", str(rn(int(x.split()[1])))] + x.split()[2:]) if x.startswith("A ") else x) for x in extra]
            b2 = blocks[:bi] + blocks[bi + 1:]
            if attempt(" ".join(h2), b2, e2, x2):
                head, blocks, edges, extra = " ".join(h2), b2, e2, x2; changed = True
            bi -= 1
        # drop the last block when nothing refers to it
        while len(blocks) > 1:
            last = len(blocks) - 1
            ht = head.split()
            if blocks[last] or any(last in e for e in edges) or int(ht[3]) == last or any(x.split()[:2] == ["A", str(last)] for x in extra) \
                    or ("entry=%d" % last) in ht:
                break
            h2 = " ".join([ht[0], str(last)] + ht[2:])
            if attempt(h2, blocks[:-1], edges, extra):
                head = h2; blocks = blocks[:-1]; changed = True
            else:
                break
    return _fmt(head, blocks, edges, extra)


class _Rep:
    """stand-alone report for the command line"""
    def __init__(self, prop):
        self.prop = prop
        self.cov = {"streams": {}, "evaluations": 0, "distinct_nontrivial": 0}
        self.v = []; self.k = []

    def violation(self, tag, text, w):
        self.v.append((tag, text))

    def known_finding(self, what):
        self.k.append(what)


if __name__ == "__main__":
    import argparse, json
    ap = argparse.ArgumentParser()
    ap.add_argument("prop", choices=["C01", "C02"])
    ap.add_argument("--dom", default=None)
    ap.add_argument("--n", type=int, default=None)
    ap.add_argument("--seed", type=int, default=20260925)
    ap.add_argument("--tier", default="quick")
    ap.add_argument("--replay", help="a program line (text) or a replay file holding 'input: <line>': run it on --dom")
    ap.add_argument("--shrink", action="store_true", help="with --replay: reduce the program first (same class of oracle message)")
    a = ap.parse_args()
    if os.environ.get("FWDDOMS_PRIVATE_BUILD", "1") == "1":
        # exploration from the command line: a private build cache (concurrent checks prune build/impl-*)
        vlib.BUILD = os.path.join(vlib.VERIF, "build", "fwddoms-scratch")
    if a.replay:
        line = a.replay
        if os.path.exists(line):
            m = re.search(r"(?m)^input: (.*)$", open(line).read())
            line = m.group(1).strip() if m else open(a.replay).read().strip().split("\n")[0]
        os.makedirs(os.path.join(vlib.VERIF, "out", a.prop), exist_ok=True)
        rc = 0
        for dn in (a.dom or ",".join(d["name"] for d in DOMAINS)).split(","):
            dom = [d for d in DOMAINS if d["name"] == dn][0]
            exe, err = vlib.build_harness(dom["tu"])
            if err:
                print(err); sys.exit(2)
            sc = os.path.join(vlib.VERIF, "out", a.prop, "fwd-%s-replay.cases" % dn)
            ans = run_cases(exe, dn, [line], sc, per_run=20)[0]
            w = judge(a.prop, line, ans)
            if a.shrink and w:
                cls = lambda w, x: ("abort:" + re.sub(r"\d+", "", x[:60])) if is_abort(x) else re.sub(r"b?\d+|\[.*?\]", "", w.split(": ", 1)[1])[:40]
                c0 = cls(w, ans)

                def still(l2):
                    a2 = run_cases(exe, dn, [l2], sc, per_run=20)[0]
                    w2 = judge(a.prop, l2, a2)
                    return bool(w2) and cls(w2, a2) == c0
                line = shrink(line, still)
                ans = run_cases(exe, dn, [line], sc, per_run=20)[0]
                w = judge(a.prop, line, ans)
            print("== %s\ninput:          %s\nimplementation: %s\noracle:         %s" % (dn, line, ans, w if w else "no violation found"))
            rc = rc or (1 if w else 0)
        sys.exit(rc)
    rep = _Rep(a.prop)
    t = time.time()
    streams(rep, a.tier, a.seed, a.prop, only=a.dom.split(",") if a.dom else None, n=a.n)
    for name, st in rep.cov["streams"].items():
        print(name, json.dumps(st)[:700])
    for k in rep.k:
        print("KNOWN:", k[:600])
    for tag, text in rep.v:
        print("VIOLATION", tag)
        print("   " + "\n   ".join(text.split("\n")[:4]))
    print("wall %.1f s, %d evaluations, %d non-trivial, %d violations, %d known" % (time.time() - t, rep.cov["evaluations"], rep.cov["distinct_nontrivial"], len(rep.v), len(rep.k)))
