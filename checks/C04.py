"""C04 — the inclusion test and the lattice operations agree with concretisation."""
import vlib, domhist, domcommon

def run(rep, tier, seed):
    rep.cov["trusted_base"] = domcommon.TRUSTED
    rep.cov["rule"] = ("histories biased towards lattice operations with inclusion queries between all registers (values over "
                       "different variable sets included); non-trivial as in C03")
    rep.assumptions = domcommon.ASSUME
    vlib.prove(rep)
    ops = ["bounds", "bounds", "assign", "assume", "join", "meet", "copy", "forget", "q_leq", "q_leq", "q_leq", "wassign", "widen", "top", "bot", "expand"]
    lines = domhist.gen(seed + 4, tier, opts={"ops": ops, "maxvars": 4}, n=(1200 if tier == "quick" else 30000))
    vlib.run_stream(rep, "itv-lattice", "itvdom", "itvdom", lines, oracle=domhist.oracle,
                    nontrivial=domhist.nontrivial, key=lambda l: "history")
    # flat_boolean_numerical_domain<interval_domain>: mirrored (Dom/FlatBool.v), proved, exact correspondence
    import C03_flatbool
    C03_flatbool.streams(rep, tier, seed)
    import domall
    domall.search(rep, tier, seed, "C04")
