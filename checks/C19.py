"""C19 — variable-to-value environments and set containers built on patricia trees behave
as total maps with default top / as finite sets."""
import vlib, patricia

TRUSTED = [
    "Coq 8.16.1 kernel (coqc); no native_compute",
    "extraction: ExtrOcamlBasic only, no Extract Constant; OCaml 4.13.1; ocaml/patricia_drv.ml + zio (zarith for decimal I/O)",
    "correspondence: gen/patricia.py generator, harness/patricia.cpp (public API of separate_domain<Key, interval<z_number>>, "
    "patricia_tree_set<Key>, discrete_domain<Key> with a test Key whose index() is any uint64), line diff",
    "value lattice instance: Scalar/Itv.v (mirror of ikos::interval<z_number>, property C08)",
    "reference semantics of the oracle: python dict / set, pointwise interval operations on python integers",
]

def run(rep, tier, seed):
    rep.cov["trusted_base"] = TRUSTED
    rep.cov["rule"] = ("corpus + exhaustive/sampled pairs of key subsets over key universes placed on the case splits "
                       "(dense keys, one-bit differences, 2^63, 2^64-1, nested/disjoint/overlapping, shared subtrees) "
                       "+ seeded random histories of 1-40 operations over 4 registers; a case is non-trivial when a "
                       "binary operation or comparison is evaluated on two operands holding at least two bindings each; "
                       "distinct by input line")
    rep.assumptions = [
        "model = hand-written mirror of patricia_trees.hpp / separate_domains.hpp (separate_domain) / discrete_domains.hpp "
        "(discrete_domain), tied to the sources by differential testing only",
        "keys are N in the model; the C++ index_t is uint64 (no wrap-around is reachable on well-formed trees)",
        "pointer-equality shortcuts (s == t) are not modelled; merge_idem / compare_refl show they agree with the model for "
        "idempotent operators and reflexive orders",
        "the tree::iterator stack machine is modelled as the left-to-right list of leaves",
        "rename is specified under its documented precondition (targets distinct, fresh and disjoint from the sources)",
        "separate_discrete_domain, discrete_pair_domain, set_domain and array_adaptive's offset map are not modelled",
    ]
    vlib.prove(rep)
    lines = patricia.gen(seed, tier)
    vlib.run_stream(rep, "patricia", "patricia", "patricia", lines, oracle=patricia.oracle,
                    nontrivial=patricia.nontrivial, key=patricia.key)


def replay(path):
    """re-run one recorded case on both sides"""
    import re, os, tempfile
    txt = open(path).read()
    m = re.search(r"^input: (.*)$", txt, flags=re.M)
    if not m:
        print(txt)
        return 1
    line = m.group(1)
    hexe, err = vlib.build_harness("patricia")
    dexe, err2 = vlib.build_driver("patricia")
    if err or err2:
        print(err or err2)
        return 1
    d = os.path.join(vlib.VERIF, "out", "C19")
    os.makedirs(d, exist_ok=True)
    cf = os.path.join(d, "replay.cases")
    open(cf, "w").write(line + "\n")
    impl = vlib.run_harness_resilient(hexe, (), cf, 1)
    rc, out = vlib.sh([dexe, cf])
    print("input:          " + line)
    print("implementation: " + impl.get(0, "MISSING"))
    print("model:          " + out.strip())
    print("oracle:         " + str(patricia.oracle(line, impl.get(0, "MISSING"), None)))
    return 0
