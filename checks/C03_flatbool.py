"""C03 / C04 on flat_boolean_numerical_domain<interval_domain>: correspondence of the Coq mirror
coq/Dom/FlatBool.v (proved sound in coq/Dom/FlatBoolSound.v, statements in
coq/Props/Properties_C03_flatbool.v) with the C++ under operation histories that mix
numerical and boolean operations.  Called from checks/C03.py and checks/C04.py:

    import C03_flatbool
    C03_flatbool.streams(rep, tier, seed)

harness/flatbool.cpp and ocaml/flatbool_drv.ml evaluate the same `hist` lines
(harness/domhist.hpp); every printed answer must be identical.  The boolean oracle of
gen/domall_extra.py (concrete stores with integer and boolean variables) is applied to the
implementation's answers on the whole stream and turns a disagreement into a failing input.
"""
import random, re
import vlib, domhist
import domall_extra as X

CHECKS = ("at", "leq", "entails", "csts", "bot")

# hand-picked histories for the case splits of the mirror that the scripted generator reaches rarely
CORPUS = [
    # expand / rename overwrite a variable that a remembered constraint mentions (bool-9)
    "hist 2 2 ; bassign 0 0 C le E 1 1 0 0 ; assign 0 1 E 0 3 ; expand 0 1 0 ; bassume 0 0 0",
    "hist 2 2 ; bassign 0 0 C le E 1 1 0 0 ; bassign 0 1 C le E 1 1 1 5 ; expand 0 1 0 ; bassume 0 0 0",
    "hist 2 2 ; bassign 0 0 C le E 1 1 0 0 ; assign 0 1 E 0 3 ; rename 0 1 1 0 ; bassume 0 0 0",
    "hist 2 2 3 ; bcopy 0 1 0 0 ; expand 0 4 2 ; bassume 0 1 0 ; q_bat 0 0",
    "hist 2 2 3 ; bbin 0 and 2 0 1 ; expand 0 4 3 ; expand 0 3 2 ; bassume 0 2 0 ; q_bat 0 0 ; q_bat 0 1",
    # a bottom boolean component next to a non-bottom numerical one survives until the next
    # canonicalisation: the widening (no reduction) sees it
    "hist 2 2 3 ; bcopy 0 1 0 0 ; bassume 0 0 1 ; bassume 0 1 0 ; assume 1 1 C le E 1 1 0 5 ; widen 1 0 1 ; q_at 1",
    "hist 3 2 3 ; bcopy 0 1 0 0 ; bassume 0 0 1 ; bassume 0 1 0 ; assume 1 1 C le E 1 1 0 5 ; widenthr 2 0 1 1 7 ; normalize 0 ; widen 1 0 1",
    # a bottom value keeps what it remembered: the join with it intersects the memories
    "hist 3 2 ; bassign 0 0 C le E 1 1 0 0 ; copy 1 0 ; bassign 1 1 C le E 1 -1 1 0 ; bassume 0 0 0 ; assume 0 1 C le E 1 -1 0 1 ; join 2 0 1 ; q_leq 1 2 ; bassume 2 1 0 ; q_at 2",
    "hist 3 2 ; bassign 0 0 C le E 1 1 0 0 ; copy 1 0 ; bot 0 ; join 2 0 1 ; bassume 2 0 0 ; q_at 2",
    # order in which the remembered constraints are applied (lincst_set_t order: kind, constant, terms)
    "hist 2 3 3 ; bassign 0 0 C le E 2 1 0 -1 1 0 ; bassign 0 1 C le E 1 1 1 -5 ; bbin 0 and 2 0 1 ; bassume 0 2 0 ; q_at 0",
    "hist 2 3 3 ; bassign 0 0 C le E 1 1 1 -5 ; bassign 0 1 C le E 2 1 0 -1 1 0 ; bbin 0 and 2 0 1 ; bassume 0 2 0 ; q_at 0",
    "hist 2 3 3 ; bassign 0 0 C lt E 2 1 0 -1 1 0 ; bassign 0 1 C eq E 1 1 1 -5 ; bbin 0 and 2 1 0 ; bassume 0 2 0 ; q_at 0 ; q_csts 0",
    # casts between integers and booleans
    "hist 2 2 ; assign 0 0 E 0 7 ; cast 0 trunc 2 0 ; q_bat 0 0 ; cast 0 zext 1 2 ; q_at 0 ; assign 0 0 E 0 0 ; cast 0 trunc 3 0 ; cast 0 sext 1 3 ; q_at 0 ; q_csts 0",
    "hist 2 2 ; assume 0 1 C le E 1 -1 0 0 ; cast 0 trunc 2 0 ; q_bat 0 0 ; cast 0 zext 1 2 ; q_at 0 ; q_csts 0",
    # inclusion: memories and unchanged variables of the right operand
    "hist 3 2 ; bassign 0 0 C le E 1 1 0 0 ; copy 1 0 ; assign 1 0 E 0 1 ; q_leq 1 0 ; q_leq 0 1 ; leqprobe 2 1 0 0 0",
    "hist 3 2 ; bassign 0 0 C le E 1 1 0 0 ; copy 1 0 ; bassign 1 1 C le E 1 1 1 0 ; q_leq 1 0 ; q_leq 0 1",
    # the example of Properties_C03_flatbool.v
    "hist 1 1 ; bassign 0 0 C le E 1 1 0 0 ; assign 0 0 E 0 5 ; bassign 0 1 C le E 1 1 0 -10 ; bassume 0 0 0 ; q_at 0 ; q_bat 0 0 ; q_bat 0 1",
]


def _insert_bool_ops(rng, line):
    """a numerical history of gen/domhist.py with boolean operations inserted at random places"""
    ops = line.split(" ; ")
    head = ops[0].split()
    nregs, nv = int(head[1]), int(head[2])
    nb = rng.choice([2, 2, 3, 4])
    known = []
    body = []
    for o in ops[1:]:
        body.append(o)
        if rng.random() < 0.35:
            r = rng.randrange(nregs)
            x = rng.random()
            if x < 0.55:
                body.append(X._bool_op(rng, r, nv, nb, known))
            elif x < 0.85:
                body.append("bassume %d %d %d" % (r, rng.choice(known) if known else rng.randrange(nb), rng.randrange(2)))
            elif x < 0.93:
                body.append(rng.choice(["q_bat %d %d" % (r, rng.randrange(nb)), "q_csts %d" % r, "q_at %d" % r]))
            else:
                s, t = rng.randrange(nregs), rng.randrange(nregs)
                body.append("leqprobe %d %d %d %d %d" % (r, s, t, rng.choice(known) if known else rng.randrange(nb), rng.randrange(2)))
    r = rng.randrange(nregs)
    body.append("bassume %d %d %d" % (r, rng.choice(known) if known else 0, rng.randrange(2)))
    body.append("q_csts %d" % r)
    return "hist %d %d %d ; %s" % (nregs, nv, nb, " ; ".join(body))


def _typed_expand_rename(rng, n):
    """scripted: expand / rename / havoc / forget / project of variables mentioned by remembered
    constraints or implied booleans (integer and boolean variables), then assume_bool"""
    out = []
    for _ in range(n):
        nv = rng.choice([2, 3]); nb = rng.choice([3, 4])
        ops = []
        known = []
        for _ in range(rng.randint(1, 3)):
            ops.append(X._bool_op(rng, 0, nv, nb, known))
        for _ in range(rng.randint(1, 3)):
            x = rng.random()
            if x < 0.3:
                a, b = rng.sample(range(nv), 2)
                ops.append("expand 0 %d %d" % (a, b))
            elif x < 0.5:
                a, b = rng.sample(range(nb), 2)
                ops.append("expand 0 %d %d" % (nv + a, nv + b))
            elif x < 0.65:
                a, b = rng.sample(range(nv), 2)
                ops.append("forget 0 1 %d" % b)
                ops.append("rename 0 1 %d %d" % (a, b))
            elif x < 0.8:
                a, b = rng.sample(range(nb), 2)
                ops.append("bforget 0 %d" % b)
                ops.append("rename 0 1 %d %d" % (nv + a, nv + b))
                # (the shared oracle gives the old name an arbitrary integer: make it a boolean again)
                ops.append("bforget 0 %d" % a)
            elif x < 0.9:
                vs = rng.sample(range(nv + nb), rng.randint(1, 3))
                ops.append("forget 0 %d %s" % (len(vs), " ".join(map(str, vs))))
            else:
                vs = rng.sample(range(nv + nb), rng.randint(1, nv + nb - 1))
                ops.append("project 0 %d %s" % (len(vs), " ".join(map(str, vs))))
            if rng.random() < 0.4:
                ops.append(X._bool_op(rng, 0, nv, nb, known))
        ops.append("bassume 0 %d %d" % (rng.choice(known), rng.randrange(2)))
        ops.append("q_csts 0")
        for b in range(nb):
            ops.append("q_bat 0 %d" % b)
        out.append("hist 2 %d %d ; %s" % (nv, nb, " ; ".join(ops)))
    return out


def _leq_scripted(rng, n):
    """scripted: two registers that remember the same constraints but differ in the unchanged
    variables / the remembered sets / the implied booleans; inclusion both ways, each followed
    by a probe (assume_bool on a copy of the right operand)"""
    out = []
    for _ in range(n):
        nv = rng.choice([2, 3]); nb = rng.choice([2, 3])
        ops = []
        known = []
        for _ in range(rng.randint(1, 3)):
            ops.append(X._bool_op(rng, 0, nv, nb, known))
        ops.append("copy 1 0")
        for r in (0, 1):
            for _ in range(rng.choice([0, 1, 1, 2])):
                x = rng.random()
                if x < 0.45:
                    ops += X._modify(rng, r, rng.randrange(nv), nv, nb)
                elif x < 0.8:
                    ops.append(X._bool_op(rng, r, nv, nb, known))
                else:
                    ops.append("bassume %d %d %d" % (r, rng.choice(known), rng.randrange(2)))
        for (a, b) in ((0, 1), (1, 0)):
            ops.append("q_leq %d %d" % (a, b))
            ops.append("leqprobe 2 %d %d %d %d" % (a, b, rng.choice(known), 0 if rng.random() < 0.8 else 1))
        out.append("hist 3 %d %d ; %s" % (nv, nb, " ; ".join(ops)))
    return out


def gen_lines(tier, seed, prop="C03"):
    q = tier == "quick"
    rng = random.Random(seed * 31 + 5)
    lines = list(CORPUS) + list(X.BOOL_CORPUS)
    lines += X.bool_histories(seed + 401, 700 if q else 20000, prop)
    lines += _typed_expand_rename(random.Random(seed + 402), 150 if q else 4000)
    lines += _leq_scripted(random.Random(seed + 405), (300 if prop == "C04" else 120) if q else 4000)
    # numerical histories (the language of the interval stream) as they are, and with boolean
    # operations inserted
    num = domhist.gen(seed + 403, tier, opts={"maxvars": 4, "maxops": 25, "corpus": False}, n=(350 if q else 10000))
    lines += num[: len(num) // 3]
    lines += [_insert_bool_ops(rng, l) for l in num[len(num) // 3:]]
    if prop == "C04":
        ops = ["bounds", "bounds", "assign", "assume", "join", "meet", "copy", "forget", "q_leq", "q_leq", "wassign", "widen", "top", "bot", "expand"]
        lat = domhist.gen(seed + 404, tier, opts={"ops": ops, "maxvars": 3, "maxops": 20, "corpus": False}, n=(200 if q else 6000))
        lines += [_insert_bool_ops(rng, l) for l in lat]
    return lines


def _trunc_as_reified(line):
    """`cast r trunc b v` (integer to boolean) is `b := (v != 0)` in flat_boolean_numerical_domain
    ("zero is false and non-zero is true"); the shared oracle of gen/domhist.py gives that cast
    an arbitrary result because the numerical domains do.  Same number of printed answers."""
    ops = line.split(" ; ")
    nv = int(ops[0].split()[2])
    for i, o in enumerate(ops):
        t = o.split()
        if len(t) == 5 and t[0] == "cast" and t[2] == "trunc" and int(t[3]) >= nv and int(t[4]) < nv:
            ops[i] = "bassign %s %d C ne E 1 1 %s 0" % (t[1], int(t[3]) - nv, t[4])
    return " ; ".join(ops)


def oracle(line, ans, rng=None):
    return X.bool_oracle(_trunc_as_reified(line), ans, CHECKS)


def nontrivial(line, ans):
    """rule: a boolean operation occurs, the history prints at least 3 distinct states that are
    neither bottom nor top, and some assume_bool refined a printed state"""
    if not re.search(r"\b(bassign|bcopy|bbin|bselect|bwassign|bwcopy|bfromint)\b", line) or "bassume" not in line:
        return False
    parts = set(ans.split(" ; "))
    good = [p for p in parts if p not in ("_|_", "true", "false") and not p.startswith("T") and "[" in p]
    return len(good) >= 3


def streams(rep, tier, seed):
    """correspondence stream `bool-itv-histories` (harness flatbool, driver flatbool)"""
    rep.cov.setdefault("trusted_base", [])
    lines = gen_lines(tier, seed, rep.prop)
    return vlib.run_stream(rep, "bool-itv-histories", "flatbool", "flatbool", lines, oracle=oracle,
                           nontrivial=nontrivial, key=lambda l: "history")
