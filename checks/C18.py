"""C18 — liveness and assertion-dependence facts."""
import vlib, transforms

TRUSTED = [
    "Coq 8.16.1 kernel (coqc); no native_compute; vm_compute only in Examples",
    "extraction: ExtrOcamlBasic only, no Extract Constant; OCaml driver ocaml/transforms_drv.ml (parsing of the textual CFGs, canonical form of linear expressions, insertion-ordered edge lists, printing)",
    "harness/transforms.cpp + harness/cfgtext.hpp: real crab z_cfg_t built from the text, live_and_dead_analysis::get / dead_exit and assertion_crawler::get_results per block, printed as sorted sets",
    "concrete semantics = coq/Ana/CfgSem.v (mathematical integers; division by zero, assume(false), unreachable have no successor; a failing assert stops the execution); the python interpreter of gen/transforms.py re-implements it independently for the oracle",
    "post-dominance frontier (control dependences of the crawler) is specified mathematically in the model; boost's Lengauer-Tarjan is compared by correspondence only",
]


def run(rep, tier, seed):
    rep.cov["trusted_base"] = TRUSTED
    rep.cov["rule"] = ("corpus (the repaired defects) + seeded random CFGs with 1-12 blocks and 1-5 variables: loops, self loops, 2-cycles, "
                       "blocks unreachable from the entry / not reaching the exit, several sinks, exit inside a cycle, `unreachable` in the "
                       "middle of blocks, function declarations with 0-2 outputs; each CFG is queried for liveness (get and dead_exit of "
                       "every block) and for the assertion crawler (with and without control dependences).  Non-trivial: liveness - some "
                       "block has a non-empty live-out set and some block a non-empty dead set; crawler - at least two listed facts with a "
                       "non-empty variable set; distinct by input line")
    rep.assumptions = [
        "models = hand-written Coq mirrors of liveness.hpp / killgen_fixpoint_iterator.hpp / assertion_crawler.hpp (intra-procedural part), tied to the sources by differential testing only",
        "the fixpoints are specified as least solutions and computed by iteration to a validated post-fixpoint with fuel (the model answers FUEL if it runs out: never observed); the theorems hold for every validated solution",
        "CFGs with function outputs but no exit block are outside the generator (the kill-gen iterator then seeds an order-dependent block; no execution reaches an exit)",
        "crawler theorem: data dependences (statement paths, assume/assert do not filter); the control-dependence additions only enlarge the sets and are covered by correspondence; inter-procedural summaries (callsites) are not modelled",
        "statement kinds outside the modelled fragment (arrays, regions/references, booleans, casts, calls) are not exercised",
    ]
    vlib.prove(rep)
    lines = transforms.gen(seed, tier, "C18")
    vlib.run_stream(rep, "liveness-crawler", "transforms", "transforms", lines, oracle=transforms.oracle,
                    nontrivial=transforms.nontrivial, key=transforms.key)
    import C18_inter
    C18_inter.streams(rep, tier, seed)
    import C18_callsite
    C18_callsite.streams(rep, tier, seed)


def replay(path):
    """bin/check C18 --replay <file>: re-run the recorded case on both sides, print both answers and the oracle's verdict."""
    import os, re
    txt = open(path).read()
    if "stream=crawler-inter" in txt:
        import C18_inter
        return C18_inter.replay(path)
    m = re.search(r"^input: (.*)$", txt, re.M)
    if not m:
        print("no recorded input in", path)
        return 2
    line = m.group(1).strip()
    hexe, err = vlib.build_harness("transforms")
    dexe, err2 = vlib.build_driver("transforms")
    if err or err2:
        print(err or err2)
        return 2
    d = os.path.join(vlib.VERIF, "out", "C18")
    os.makedirs(d, exist_ok=True)
    cf = os.path.join(d, "replay.case")
    open(cf, "w").write(line + "\n")
    impl = vlib.run_harness_resilient(hexe, (), cf, 1, 120).get(0, "MISSING")
    rc, out = vlib.sh([dexe, cf], timeout=120)
    model = out.strip().split(" ", 2)[2] if out.startswith("R 0 ") else out.strip()
    print("input:          ", line)
    print("implementation: ", impl)
    print("model:          ", model)
    print("oracle:         ", transforms.oracle(line, impl, None) or "property holds on the implementation's answer (sampled executions)")
    return 0 if impl == model else 1
