"""C05 — widening stabilises every chain; bounds of widening and narrowing."""
import vlib, domhist, domcommon

def run(rep, tier, seed):
    rep.cov["trusted_base"] = domcommon.TRUSTED
    rep.cov["rule"] = ("widening chains r0 := r0 widen r1 (with and without thresholds) against re-randomised r1, stationarity queried "
                       "after every step, plus general histories with widening/narrowing; non-trivial as in C03")
    rep.assumptions = domcommon.ASSUME + ["termination of a C++ analysis run is observed (watchdog), not proved"]
    vlib.prove(rep)
    lines = domcommon.widen_chains(seed + 5, 300 if tier == "quick" else 6000)
    vlib.run_stream(rep, "itv-widen-chains", "itvdom", "itvdom", lines, oracle=domcommon.chain_oracle,
                    nontrivial=domhist.nontrivial, key=lambda l: "chain")
    ops = ["bounds", "assign", "assume", "widen", "widen", "narrow", "widenthr", "join", "copy", "q_leq", "arith"]
    lines = domhist.gen(seed + 55, tier, opts={"ops": ops}, n=(600 if tier == "quick" else 15000))
    vlib.run_stream(rep, "itv-widen-histories", "itvdom", "itvdom", lines, oracle=domhist.oracle,
                    nontrivial=domhist.nontrivial, key=lambda l: "history")
    import domall
    domall.search(rep, tier, seed, "C05")
