"""C15 — region / reference domain: loaded values are never lost, answers about references hold.

1. proofs: Props/Properties_C15.v (model Dom/RegionCore.v over the interval domain).
2. correspondence: region programs restricted to the modelled statements, every setting of
   region_domain_params, on region_domain<interval_domain> vs the extracted model (every
   printed state: at() of every variable incl. region contents, is_null_ref,
   get_allocation_sites, get_tags, reference counts / init flags); the property oracle
   (independent concrete heap semantics, gen/regions.py) is applied to every answer.
3. search (no model): the full statement set (region_cast, unknown regions, int_to_ref /
   ref_to_int, does_not_have_tag, boolean reference constraints, forget / project,
   division ...) over the base domains intervals, flat-boolean x intervals, zones and
   sign x constant, every parameter setting, checked by the oracle; crashes of the
   implementation are violations too."""
import os, re, sys, subprocess, collections
_V = os.path.dirname(os.path.dirname(os.path.abspath(__file__)))
for _p in ("bin", "gen", "checks"):
    if os.path.join(_V, _p) not in sys.path:
        sys.path.insert(0, os.path.join(_V, _p))
import vlib, regions

TRUSTED = [
    "Coq 8.16.1 kernel (coqc); no native_compute",
    "extraction: ExtrOcamlBasic only, no Extract Constant; OCaml 4.13.1; ocaml/regions_drv.ml + zio (zarith for decimal I/O); "
    "the driver builds the canonical linear expressions (address + offset, reference constraints) handed to the model",
    "correspondence: gen/regions.py histories, harness/regions.cpp (public API of region_domain; `#define private public` on "
    "region_domain.hpp only to print the region environment: counts, init flags, site sets of regions), line diff",
    "base domain: Dom/ItvDomain.v, the proved mirror of ikos::interval_domain (C03); environments as total maps (C19)",
    "concrete semantics of the theorems: Dom/RegionCoreSound.v (store + heap region -> address -> value, instrumented with the "
    "references created per region, allocation sites of addresses, tags of values); of the oracle: gen/regions.py (independent python)",
]
ASSUME = [
    "the model is a hand-written reduced mirror of region_domain.hpp (fixed-naming ghost manager, interval base), tied to the code by "
    "differential testing only; it follows the code with fixes/regions-1..3 applied",
    "loads / stores go through non-null references created for that region by the analysed code (ref_make / ref_gep after "
    "region_init): this is the hypothesis under which the C++ declares its count-zero strong update usable; loads read cells written before",
    "ref_make yields a fresh non-null address; ref_gep stays inside the memory object; CrabIR is well typed (op_ok)",
    "not modelled (oracle search only): region_cast, unknown regions, int_to_ref/ref_to_int, offset/size ghost variables of "
    "is_dereferenceable (the model stream omits meet, narrowing and reference equalities when that parameter is set), deallocation "
    "classes, rename/project, boolean statements, other base domains",
    "add_tag on a cell that was never written is left out of the oracle (crab's intended meaning of tagging data that does not exist is unclear)",
]
SEARCH_MODES = ["itv", "boolitv", "zones", "signconst"]
# known finding of this family, also accepted when it is not (yet) listed in known_findings.json
BUILTIN_KNOWN = [{
    "property": "C15", "stream": "search-*", "line_regex": r"; (meet|narrow) \d+ \d+ \d+", "witness_regex": r"BOTTOM the abstract value is bottom",
    "input": regions.KNOWN_MEET,
    "what": "region_domain meet / narrowing: two values that give an unknown region incompatible dynamic types (region(int) vs "
            "region(ref): the dynamic type is the type of the last written values, and a store of a non-reference into a region of "
            "references is skipped) have bottom as their meet although both describe the same memory; the repair (forget the ghost "
            "variables of such regions in both operands and keep type top) is not local to type_value::operator& "
            "(Coq: C15x_meet_unknown_types_refuted; meet and narrowing are excluded from the extended history theorem)",
}]
MAX_SHRINK = 10


def sizes(tier):
    return (2500, 1000, 2500) if tier == "quick" else (40000, 10000, 40000)


def run_cases(exe, mode, lines, path, timeout=900):
    with open(path, "w") as f:
        f.write("\n".join(lines) + "\n")
    res = vlib.run_harness_resilient(exe, ["--mode=" + mode], path, len(lines), timeout)
    return [res.get(i, "MISSING") for i in range(len(lines))]


def exit_status(exe, mode, line, path):
    with open(path, "w") as f:
        f.write(line + "\n")
    try:
        p = subprocess.run([exe, "--mode=" + mode, path], stdout=subprocess.PIPE, stderr=subprocess.STDOUT,
                           universal_newlines=True, errors="replace", timeout=120)
    except subprocess.TimeoutExpired:
        return 124, "timeout"
    m = re.search(r"CRAB ERROR: *(.*)", p.stdout)
    return p.returncode, (m.group(1)[:200] if m else "")


def crash_oracle(exe, mode, scratch):
    """an ABORT that is not a CRAB_ERROR (a signal, a timeout) is a violation"""
    def orc(line, ans):
        if ans not in ("ABORT", "MISSING"):
            return None
        rc, msg = exit_status(exe, mode, line, scratch)
        if rc < 0 or rc == 124 or rc > 1:
            return "step 0 (run): CRASH the implementation %s on an input inside the searched fragment" % (
                "timed out" if rc == 124 else "died with signal %d" % -rc if rc < 0 else "exited with status %d" % rc)
        return None
    return orc


def shrink(exe, mode, line, orc, kind, scratch, budget=30):
    """greedy delta debugging on the operation list, keeping the class of the oracle's message"""
    ops = line.split(" ; ")
    head, body = ops[0], ops[1:]
    best = None
    size = max(1, len(body) // 2)
    rounds = 0
    while rounds < budget and body:
        rounds += 1
        cands = []
        i = 0
        while i < len(body):
            c = body[:i] + body[i + size:]
            if c:
                cands.append(c)
            i += size
        if not cands:
            break
        ls = [head + " ; " + " ; ".join(c) for c in cands]
        answers = run_cases(exe, mode, ls, scratch, timeout=120)
        hit = None
        for c, l, a in zip(cands, ls, answers):
            try:
                w = orc(l, a)
            except Exception:
                w = None
            if w and regions.kind_of(w) == kind:
                hit = (c, w)
                break
        if hit:
            body, best = hit
            size = max(1, min(size, len(body) // 2))
        elif size > 1:
            size //= 2
        else:
            break
    return head + " ; " + " ; ".join(body), best


def match_known(known, stream, line, w):
    for k in known:
        s = k.get("stream", "")
        if not (s == stream or s == "" or (s.endswith("*") and stream.startswith(s[:-1]))):
            continue
        if not re.search(k.get("line_regex", ""), line):
            continue
        if k.get("witness_regex") and not re.search(k["witness_regex"], w):
            continue
        return k
    return None


def search(rep, tier, seed, modes=SEARCH_MODES):
    n = sizes(tier)[1]
    exe, err = vlib.build_harness("regions")
    if err:
        rep.violation("search-build", "search: %s" % err, False)
        return
    d = os.path.join(vlib.VERIF, "out", rep.prop)
    os.makedirs(d, exist_ok=True)
    known = [k for k in vlib.load_known().get("findings", []) if k.get("property") == rep.prop]
    known += [k for k in BUILTIN_KNOWN if k["what"] not in [x.get("what") for x in known]]
    nshrunk = 0
    for mi, mode in enumerate(modes):
        stream = "search-" + mode
        lines = list(regions.CORPUS) + list(regions.CORPUS_FULL) + list(regions.CORPUS2) + [regions.KNOWN_MEET] + \
            regions.gen(seed + 31 * (mi + 1), tier, "full", n=n)
        answers = run_cases(exe, mode, lines, os.path.join(d, stream + ".cases"))
        scratch = os.path.join(d, stream + ".scratch")
        corc = crash_oracle(exe, mode, scratch)
        st = {"cases": len(lines), "oracle_violations": 0, "aborts": 0, "crashes": 0, "distinct_nontrivial": 0, "oracle_errors": 0}
        rep.cov["streams"][stream] = st
        buckets = collections.OrderedDict()
        hist = collections.Counter()
        nontriv = set()
        for l, a in zip(lines, answers):
            for o in l.split(" ; ")[1:]:
                hist[o.split()[0]] += 1
            w = None
            if a in ("ABORT", "MISSING"):
                st["aborts"] += 1
                w = corc(l, a)
                if w:
                    st["crashes"] += 1
            else:
                try:
                    w = regions.oracle(l, a)
                except Exception as e:
                    st["oracle_errors"] += 1
                    st.setdefault("oracle_error_sample", "%r on %s" % (e, l[:200]))
                if not w and regions.nontrivial(l, a):
                    nontriv.add(l)
            if w:
                st["oracle_violations"] += 1
                m = re.search(r"step \d+ \((\w+)", w)
                buckets.setdefault((regions.kind_of(w), m.group(1) if m else "?"), []).append((l, a, w))
        st["distinct_nontrivial"] = len(nontriv)
        st["histogram"] = dict(hist.most_common(40))
        rep.cov["evaluations"] += len(lines)
        rep.cov["distinct_nontrivial"] += len(nontriv)
        for (kind, stepop), hits in buckets.items():
            hits.sort(key=lambda h: len(h[0]))
            l, a, w = hits[0]
            l2, w2 = l, w
            if nshrunk < MAX_SHRINK:
                nshrunk += 1
                l2, w2 = shrink(exe, mode, l, (corc if kind == "CRASH" else regions.oracle), kind, scratch)
                w2 = w2 or w
            kn = match_known(known, stream, l2, w2)
            if kn:
                rep.known_finding("%s [%s, %d hit(s) of this class] input: %s" % (kn["what"], stream, len(hits), l2))
                st["known"] = st.get("known", 0) + 1
                continue
            tag = "%s-%s-%s" % (stream, kind, stepop)
            rep.violation(tag, "FAILING INPUT (property oracle on the answer of region_domain, base domain mode %s, no model involved): %s\n"
                               "stream=%s class=%s hits-of-this-class=%d\ninput: %s\noriginal history: %s\nmode: %s\n"
                          % (mode, w2, stream, kind, len(hits), l2, l, mode), True)
    if rep.cov["samples"] is not None and lines:
        rep.cov["samples"].append({"stream": stream, "input": lines[-1], "implementation": answers[-1][:400]})


def run(rep, tier, seed):
    rep.cov["trusted_base"] = TRUSTED
    rep.cov["rule"] = ("corpus of minimal histories of past findings, then scripted prefixes on the case splits (singleton / "
                       "non-singleton / never-written regions, null references, allocation sites, copies, casts, unknown regions) "
                       "under the parameter settings, then seeded random region programs (2-3 registers, 2-5 references, 1-3 "
                       "regions of integers, 0-2 regions of references, 6-36 operations, ending in probe loads); non-trivial = a load "
                       "printed a bounded interval or a definite null/non-null answer was printed and the last register is not "
                       "bottom; distinct by input line")
    rep.assumptions = ASSUME
    vlib.prove(rep, extra_targets=["Extract/ExtractRegions.vo", "Extract/ExtractRegions2.vo"])
    lines = regions.gen(seed, tier, "model", n=sizes(tier)[0])
    vlib.run_stream(rep, "model-itv", "regions", "regions", lines, oracle=regions.oracle,
                    nontrivial=regions.nontrivial, key=lambda l: "history", extra_args=("--mode=itv",))
    # the extended model (Dom/RegionCore2.v): unknown regions and region_cast, offset / size ghost variables,
    # int_to_ref / ref_to_int, forget / project; extended printing of the harness (--mode=itvx)
    lines2 = regions.gen(seed + 7, tier, "model2", n=sizes(tier)[2])
    vlib.run_stream(rep, "model2-itvx", "regions", "regions2", lines2, oracle=regions.oracle,
                    nontrivial=regions.nontrivial, key=lambda l: "history", extra_args=("--mode=itvx",))
    search(rep, tier, seed)


def replay(path):
    """bin/check C15 --replay <file>: re-run the recorded history on the implementation (and on the
    model if it is inside the modelled fragment) and print the answers and the oracle's verdict."""
    txt = open(path).read()
    m = re.search(r"^input: (.*)$", txt, re.M)
    if not m:
        print("no recorded input in", path)
        return 2
    line = m.group(1).strip()
    mm = re.search(r"^mode: (\w+)$", txt, re.M)
    mode = mm.group(1) if mm else "itv"
    hexe, err = vlib.build_harness("regions")
    dexe, err2 = vlib.build_driver("regions")
    if err or err2:
        print(err or err2)
        return 2
    d = os.path.join(vlib.VERIF, "out", "C15")
    os.makedirs(d, exist_ok=True)
    cf = os.path.join(d, "replay.case")
    open(cf, "w").write(line + "\n")
    impl = vlib.run_harness_resilient(hexe, ("--mode=" + mode,), cf, 1, 120).get(0, "MISSING")
    rc, out = vlib.sh([dexe, cf], timeout=120)
    model = out.strip().split(" ", 2)[2] if out.startswith("R 0 ") else out.strip()
    print("input:          ", line)
    print("mode:           ", mode)
    ops = line.split(" ; ")[1:]
    ia, ma = impl.split(" ; "), model.split(" ; ")
    for i, o in enumerate(ops):
        print("  %-40s impl:  %s" % (o, ia[i] if i < len(ia) else "-"))
        if not model.startswith("MODEL-ERROR") and mode == "itv":
            print("  %-40s model: %s" % ("", ma[i] if i < len(ma) else "-"))
    if model.startswith("MODEL-ERROR"):
        print("model:           (outside the modelled fragment: %s)" % model)
    w = regions.oracle(line, impl)
    if impl in ("ABORT", "MISSING"):
        rc, msg = exit_status(hexe, mode, line, cf)
        print("implementation aborted: exit status %d %s" % (rc, msg))
    print("oracle:         ", w or "property holds on the implementation's answer (sampled executions)")
    return 1 if (w or (mode == "itv" and not model.startswith("MODEL-ERROR") and impl != model)) else 0
