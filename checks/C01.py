"""C01 — forward analysis invariants over-approximate every concrete execution."""
import os, vlib, cfgprog, C01_doms

TRUSTED = [
    "Coq 8.16.1 kernel (coqc); no native_compute",
    "extraction: ExtrOcamlBasic only; ocaml/fwditv_drv.ml parses the textual CFG, builds the WTO (model of wto.hpp, C07), runs the engine + interval transformer model and the Coq-verified table checker",
    "harness/fwditv.cpp + cfgtext.hpp: intra_fwd_analyzer<cfg_ref, interval_domain> on real crab CFGs built from the same text",
    "gen/cfgprog.py: structured program generator and an independent concrete interpreter (mathematical integers) used as oracle",
    "concrete semantics of CrabIR = coq/Ir/Cfg.v (division by zero blocks, failing assert stops, havoc non-deterministic)",
]

def validate_stream(rep, name, lines, impl):
    """run the Coq-verified inductiveness checker on the implementation's own invariants"""
    dexe, err = vlib.build_driver("fwditv")
    if err:
        rep.violation(name + "-driver", err, False); return
    d = os.path.join(vlib.VERIF, "out", rep.prop)
    vf = os.path.join(d, name + ".validate")
    idx = [i for i in range(len(lines)) if impl.get(i) and impl[i] not in ("ABORT", "MISSING")]
    with open(vf, "w") as f:
        for i in idx:
            f.write(lines[i] + " ### " + impl[i] + "\n")
    rc, out = vlib.sh([dexe, "--validate", vf], timeout=900)
    res = {}
    for l in out.split("\n"):
        if l.startswith("R "):
            sp = l.split(" ", 2); res[int(sp[1])] = sp[2] if len(sp) > 2 else ""
    bad = [idx[j] for j in range(len(idx)) if res.get(j) != "ok"]
    rep.cov["streams"][name] = {"cases": len(idx), "validated_by_verified_checker": len(idx) - len(bad), "rejected": len(bad)}
    rep.cov["evaluations"] += len(idx)
    import random
    rng = random.Random(rep.seed)
    for i in bad[:3]:
        w = cfgprog.oracle(lines[i], impl[i], rng)
        text = ("the Coq-verified invariant checker (theorem C01_checked_tables_sound) rejects the implementation's invariants: "
                "they are not inductive for the modelled transformer\ninput: %s\nimplementation: %s\n" % (lines[i], impl[i]))
        if w:
            text = "FAILING INPUT: " + w + "\n" + text
        rep.violation("%s-%d" % (name, i), text, bool(w))

def run(rep, tier, seed):
    rep.cov["trusted_base"] = TRUSTED
    rep.cov["rule"] = ("structured random CFG programs (sequences, diamonds with complementary assumes, nested counting loops, extra "
                       "irreducible edges, unreachable blocks, loop at the entry) x widening delay 0-3 x descending iterations 0-3 x "
                       "optional initial constraints; non-trivial = has a loop and at least two blocks with a non-top non-bottom entry invariant")
    rep.assumptions = ["theorems are about the engine/transformer model; implementation tied on generated programs",
                       "thresholds (max_thresholds>0: thresholds collected per WTO cycle by wto_thresholds) and liveness pruning (prune_dead_variables with the liveness of C18) are mirrored (Fix/WtoThresholds.v, Ana/FwdItvLive.v) and proved sound and terminating (Ana/FwdItvFullSound.v); stream fwd-thresholds-liveness: exact agreement of the tables for thr in {0,1,3,4,5,6,10,50} x live in {0,1}; CFGs without function declaration (no formals / outputs)",
                       "in stream fwd-thresholds-liveness the table checker is not run on the model's own tables (selfcheck=0): they are sound by theorem but, like the implementation's, not always inductive after a descending phase over nested loops; the checker still runs on the implementation's tables (fwd-params-validated), where a rejection counts as a violation only if the tables differ from the model's or the oracle has a witness",
                       "domains other than intervals: oracle only (see C03 search)"]
    vlib.prove(rep)
    lines = cfgprog.gen(seed + 1, tier)
    r = vlib.run_stream(rep, "fwd-intervals", "fwditv", "fwditv", lines, oracle=cfgprog.oracle,
                        nontrivial=cfgprog.nontrivial, key=lambda l: "program")
    if r:
        validate_stream(rep, "fwd-intervals-validated", lines, r[0])
    # configurations outside the mirror of FwdItv.v: thresholds and liveness pruning.  They are mirrored by
    # Fix/WtoThresholds.v + Ana/FwdItvLive.v (fwd_run_full) and proved sound / terminating in
    # Ana/FwdItvFullSound.v: exact correspondence of the invariant tables, oracle, and the verified table
    # checker (pruned transformer when live=1) on the implementation's tables.
    lines2 = cfgprog.gen(seed + 101, tier, n=(150 if tier == "quick" else 4000),
                         opts={"fixed_opts": [("thr", 10), ("live", 1), ("selfcheck", 0)]})
    lines2 += cfgprog.gen_thrlive(seed + 202, tier)
    r2 = vlib.run_stream(rep, "fwd-thresholds-liveness", "fwditv", "fwditv", lines2, oracle=cfgprog.oracle,
                         nontrivial=thrlive_nontrivial, key=cfgprog.thrlive_key)
    if r2:
        option_effect(rep, "fwd-thresholds-liveness", lines2, r2[1])
        validate_stream2(rep, "fwd-params-validated", lines2, r2[0], r2[1])
    # every other native numerical domain inside the fixpoint engine: oracle only
    C01_doms.streams(rep, tier, seed)

def thrlive_nontrivial(line, ans):
    """rule: thr > 3 (thresholds can be added) or live = 1, and the program has a loop head whose entry
    invariant is neither bottom nor top"""
    o = dict(x.split("=") for x in line.split(" | ")[0].split()[4:] if "=" in x)
    return (int(o.get("thr", "0")) > 3 or o.get("live", "0") == "1") and cfgprog.nontrivial_loop(line, ans)


def _run_driver(path, lines):
    dexe, err = vlib.build_driver("fwditv")
    if err:
        return None
    with open(path, "w") as f:
        f.write("\n".join(lines) + "\n")
    rc, out = vlib.sh([dexe, path], timeout=900)
    res = {}
    for l in out.split("\n"):
        if l.startswith("R "):
            sp = l.split(" ", 2); res[int(sp[1])] = sp[2] if len(sp) > 2 else ""
    return res


def option_effect(rep, name, lines, model):
    """coverage only: on how many cases does each option change the tables (model with the option switched off)"""
    import re
    d = os.path.join(vlib.VERIF, "out", rep.prop)
    nothr = _run_driver(os.path.join(d, name + ".nothr"), [re.sub(r" thr=\d+", " thr=0", l) for l in lines])
    nolive = _run_driver(os.path.join(d, name + ".nolive"), [re.sub(r" live=\d", " live=0", l) for l in lines])
    if nothr is None or nolive is None:
        return
    st = rep.cov["streams"][name]
    st["cases_where_thresholds_change_the_tables"] = sum(1 for i in range(len(lines)) if model.get(i) != nothr.get(i))
    st["cases_where_pruning_changes_the_tables"] = sum(1 for i in range(len(lines)) if model.get(i) != nolive.get(i))


def validate_stream2(rep, name, lines, impl, model):
    """the Coq-verified inductiveness checker (for the pruned transformer when live=1) on the implementation's own
    tables.  Tables can be sound without being inductive (after a descending phase over nested loops stale
    post-states remain, in the implementation and in the model alike): a rejection is a violation only if the
    tables differ from the model's (whose soundness is theorem C01_engine_sound_thresholds_liveness) or the
    oracle has a concrete witness."""
    dexe, err = vlib.build_driver("fwditv")
    if err:
        rep.violation(name + "-driver", err, False); return
    d = os.path.join(vlib.VERIF, "out", rep.prop)
    vf = os.path.join(d, name + ".validate")
    idx = [i for i in range(len(lines)) if impl.get(i) and impl[i] not in ("ABORT", "MISSING")]
    with open(vf, "w") as f:
        for i in idx:
            f.write(lines[i] + " ### " + impl[i] + "\n")
    rc, out = vlib.sh([dexe, "--validate", vf], timeout=900)
    res = {}
    for l in out.split("\n"):
        if l.startswith("R "):
            sp = l.split(" ", 2); res[int(sp[1])] = sp[2] if len(sp) > 2 else ""
    bad = [idx[j] for j in range(len(idx)) if res.get(j) != "ok"]
    same = [i for i in bad if impl.get(i) == model.get(i)]
    rep.cov["streams"][name] = {"cases": len(idx), "validated_by_verified_checker": len(idx) - len(bad),
                                "rejected": len(bad), "rejected_but_equal_to_the_proved_sound_model": len(same)}
    rep.cov["evaluations"] += len(idx)
    import random
    rng = random.Random(rep.seed)
    n = 0
    for i in bad:
        w = cfgprog.oracle(lines[i], impl[i], rng)
        if i in same and not w:
            continue
        n += 1
        if n > 3:
            break
        text = ("the Coq-verified invariant checker (theorems C01_checked_tables_sound / C01_checked_tables_sound_liveness) rejects the "
                "implementation's invariants, which also differ from the model's\ninput: %s\nimplementation: %s\nmodel: %s\n"
                % (lines[i], impl[i], model.get(i)))
        if w:
            text = "FAILING INPUT: " + w + "\n" + text
        rep.violation("%s-%d" % (name, i), text, bool(w))
