"""C01 — forward analysis invariants over-approximate every concrete execution."""
import os, vlib, cfgprog

TRUSTED = [
    "Coq 8.16.1 kernel (coqc); no native_compute",
    "extraction: ExtrOcamlBasic only; ocaml/fwditv_drv.ml parses the textual CFG, builds the WTO (model of wto.hpp, C07), runs the engine + interval transformer model and the Coq-verified table checker",
    "harness/fwditv.cpp + cfgtext.hpp: intra_fwd_analyzer<cfg_ref, interval_domain> on real crab CFGs built from the same text",
    "gen/cfgprog.py: structured program generator and an independent concrete interpreter (mathematical integers) used as oracle",
    "concrete semantics of CrabIR = coq/Ir/Cfg.v (division by zero blocks, failing assert stops, havoc non-deterministic)",
]

def validate_stream(rep, name, lines, impl):
    """run the Coq-verified inductiveness checker on the implementation's own invariants"""
    dexe, err = vlib.build_driver("fwditv")
    if err:
        rep.violation(name + "-driver", err, False); return
    d = os.path.join(vlib.VERIF, "out", rep.prop)
    vf = os.path.join(d, name + ".validate")
    idx = [i for i in range(len(lines)) if impl.get(i) and impl[i] not in ("ABORT", "MISSING")]
    with open(vf, "w") as f:
        for i in idx:
            f.write(lines[i] + " ### " + impl[i] + "\n")
    rc, out = vlib.sh([dexe, "--validate", vf], timeout=900)
    res = {}
    for l in out.split("\n"):
        if l.startswith("R "):
            sp = l.split(" ", 2); res[int(sp[1])] = sp[2] if len(sp) > 2 else ""
    bad = [idx[j] for j in range(len(idx)) if res.get(j) != "ok"]
    rep.cov["streams"][name] = {"cases": len(idx), "validated_by_verified_checker": len(idx) - len(bad), "rejected": len(bad)}
    rep.cov["evaluations"] += len(idx)
    import random
    rng = random.Random(rep.seed)
    for i in bad[:3]:
        w = cfgprog.oracle(lines[i], impl[i], rng)
        text = ("the Coq-verified invariant checker (theorem C01_checked_tables_sound) rejects the implementation's invariants: "
                "they are not inductive for the modelled transformer\ninput: %s\nimplementation: %s\n" % (lines[i], impl[i]))
        if w:
            text = "FAILING INPUT: " + w + "\n" + text
        rep.violation("%s-%d" % (name, i), text, bool(w))

def run(rep, tier, seed):
    rep.cov["trusted_base"] = TRUSTED
    rep.cov["rule"] = ("structured random CFG programs (sequences, diamonds with complementary assumes, nested counting loops, extra "
                       "irreducible edges, unreachable blocks, loop at the entry) x widening delay 0-3 x descending iterations 0-3 x "
                       "optional initial constraints; non-trivial = has a loop and at least two blocks with a non-top non-bottom entry invariant")
    rep.assumptions = ["theorems are about the engine/transformer model; implementation tied on generated programs",
                       "thresholds (max_thresholds>0) and liveness pruning are not in the mirror: those configurations are covered by the verified checker on the implementation's output and by the concrete oracle",
                       "domains other than intervals: oracle only (see C03 search)"]
    vlib.prove(rep)
    lines = cfgprog.gen(seed + 1, tier)
    r = vlib.run_stream(rep, "fwd-intervals", "fwditv", "fwditv", lines, oracle=cfgprog.oracle,
                        nontrivial=cfgprog.nontrivial, key=lambda l: "program")
    if r:
        validate_stream(rep, "fwd-intervals-validated", lines, r[0])
    # configurations outside the mirror: thresholds and liveness pruning
    lines2 = cfgprog.gen(seed + 101, tier, n=(150 if tier == "quick" else 4000),
                         opts={"fixed_opts": [("thr", 10), ("live", 1)]})
    hexe, err = vlib.build_harness("fwditv")
    if err:
        rep.violation("fwd-params-build", err, False); return
    d = os.path.join(vlib.VERIF, "out", rep.prop)
    cf = os.path.join(d, "fwd-params.cases")
    open(cf, "w").write("\n".join(lines2) + "\n")
    impl2 = vlib.run_harness_resilient(hexe, [], cf, len(lines2), 600)
    import random
    rng = random.Random(seed)
    hits = 0
    for i, l in enumerate(lines2):
        w = cfgprog.oracle(l, impl2.get(i, "MISSING"), rng)
        if w:
            hits += 1
            if hits <= 2:
                rep.violation("fwd-params-%d" % i, "FAILING INPUT: " + w + "\ninput: " + l + "\nimplementation: " + impl2.get(i, ""), True)
    rep.cov["streams"]["fwd-thresholds-liveness-oracle"] = {"cases": len(lines2), "oracle_violations": hits}
    rep.cov["evaluations"] += len(lines2)
    validate_stream(rep, "fwd-params-validated", lines2, impl2)
