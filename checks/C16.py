"""C16 — value semantics and representation-independent meaning."""
import vlib, domhist, domcommon

def run(rep, tier, seed):
    rep.cov["trusted_base"] = domcommon.TRUSTED + ["harness modes: plain interval_domain, abstract_domain (type-erased), abstract_domain_ref (copy-on-write)"]
    rep.cov["rule"] = ("copy-heavy histories with interleaved queries and normalize()/minimize() calls, run on the bare domain and "
                       "through both generic wrappers; every answer must equal the pure model's; non-trivial as in C03")
    rep.assumptions = domcommon.ASSUME + ["aliasing bugs are observable only through differing answers; memory errors as such are outside the model"]
    vlib.prove(rep)
    ops = ["copy", "copy", "copy", "bounds", "assign", "assume", "arith", "join", "meet", "widen", "forget", "normalize",
           "q_leq", "q_entails", "q_csts", "wassign", "expand", "project"]
    n = 500 if tier == "quick" else 10000
    plain = {}

    def wrapper_oracle(line, ans, rng=None):
        """the property itself for the wrappers: on the same history the wrapped domain must answer
        what the unwrapped one answers (then the usual concrete-store oracle)"""
        p = plain.get(line)
        if p is not None and ans != p and not ans.startswith("ABORT"):
            pa, wa = p.split(" ; "), ans.split(" ; ")
            k = next((i for i in range(min(len(pa), len(wa))) if pa[i] != wa[i]), min(len(pa), len(wa)))
            ops = line.split(" ; ")
            return ("step %d (%s) of: %s: through the wrapper the answer is %s, the unwrapped interval_domain answers %s"
                    % (k + 1, ops[k + 1] if k + 1 < len(ops) else "?", line, wa[k] if k < len(wa) else "(missing)", pa[k] if k < len(pa) else "(missing)"))
        return domhist.oracle(line, ans, rng)

    for mode in ("plain", "gen", "ref"):
        lines = domhist.gen(seed + 16, tier, opts={"ops": ops}, n=n)
        # every method of the wrappers: the full operation language (thresholds widening, narrowing, casts,
        # bitwise operators, select, rename ...)
        lines += domhist.gen(seed + 17, tier, opts={"corpus": False}, n=n // 2)
        import random
        lines += domhist.gen_widenthr(random.Random(seed + 18), 60 if tier == "quick" else 1000)
        r = vlib.run_stream(rep, "itv-copies-" + mode, "itvdom", "itvdom", lines,
                            oracle=(domhist.oracle if mode == "plain" else wrapper_oracle),
                            nontrivial=domhist.nontrivial, key=lambda l: "history", extra_args=["--mode=" + mode])
        if mode == "plain" and r:
            plain = {l: r[0].get(i) for i, l in enumerate(lines) if r[0].get(i) is not None}
    import domall
    domall.search(rep, tier, seed, "C16")
