"""C16 — value semantics and representation-independent meaning."""
import vlib, domhist, domcommon

def run(rep, tier, seed):
    rep.cov["trusted_base"] = domcommon.TRUSTED + ["harness modes: plain interval_domain, abstract_domain (type-erased), abstract_domain_ref (copy-on-write)"]
    rep.cov["rule"] = ("copy-heavy histories with interleaved queries and normalize()/minimize() calls, run on the bare domain and "
                       "through both generic wrappers; every answer must equal the pure model's; non-trivial as in C03")
    rep.assumptions = domcommon.ASSUME + ["aliasing bugs are observable only through differing answers; memory errors as such are outside the model"]
    vlib.prove(rep)
    ops = ["copy", "copy", "copy", "bounds", "assign", "assume", "arith", "join", "meet", "widen", "forget", "normalize",
           "q_leq", "q_entails", "q_csts", "wassign", "expand", "project"]
    n = 500 if tier == "quick" else 10000
    for mode in ("plain", "gen", "ref"):
        lines = domhist.gen(seed + 16, tier, opts={"ops": ops}, n=n)
        vlib.run_stream(rep, "itv-copies-" + mode, "itvdom", "itvdom", lines, oracle=domhist.oracle,
                        nontrivial=domhist.nontrivial, key=lambda l: "history", extra_args=["--mode=" + mode])
    import domall
    domall.search(rep, tier, seed, "C16")
