"""Shared pieces of the checks built on operation histories (C03, C04, C05, C12, C16)."""
import random, vlib, domhist

TRUSTED = [
    "Coq 8.16.1 kernel (coqc); no native_compute",
    "extraction: ExtrOcamlBasic only, no Extract Constant; OCaml 4.13.1; ocaml/itvdom_drv.ml + zio (zarith for decimal I/O)",
    "correspondence: gen/domhist.py histories, harness/domhist.hpp + itvdom.cpp (public API of ikos::interval_domain), line diff",
    "environment layer modelled as total maps with default top (the abstraction property C19 proves for separate_domain over patricia trees)",
    "concrete semantics = mathematical integers (coq/Ir/Syntax.v: truncating division, two's-complement bit operations, casts value-preserving)",
]
ASSUME = [
    "the model is a hand-written mirror of intervals.hpp / linear_interval_solver.hpp / abstract_domain_specialized_traits.hpp, tied to the code by differential testing only",
    "linear expressions are in the canonical form the C++ containers keep (one term per variable, no zero coefficient)",
    "rename is used within its documented precondition (new names distinct and unbound)",
    "domains other than interval_domain are covered by the oracle search only (no model): see DESIGN.md",
]

def widen_chains(seed, n):
    """histories that iterate r0 := r0 widen r1 with r1 re-randomised, querying stationarity"""
    rng = random.Random(seed)
    out = []
    for _ in range(n):
        nv = rng.randint(1, 4)
        ops = []
        for v in range(nv):
            ops.append("assign 0 %d E 0 %d" % (v, rng.randint(-5, 5)))
        thr = rng.random() < 0.4
        ths = sorted(set(rng.choice([-100, -10, -1, 1, 2, 5, 10, 50, 1000]) for _ in range(rng.randint(0, 5))))
        for _ in range(rng.randint(8, 25)):
            ops.append("top 1")
            for v in range(nv):
                if rng.random() < 0.85:
                    a = rng.randint(-40, 40); b = a + rng.randint(0, 30)
                    ops.append("assume 1 2 C le E 1 -1 %d %d C le E 1 1 %d %d" % (v, a, v, -b))
            ops.append("copy 2 0")
            if thr:
                ops.append("widenthr 0 0 1 %d %s" % (len(ths), " ".join(map(str, ths))))
            else:
                ops.append("widen 0 0 1")
            ops.append("q_leq 0 2")
            ops.append("q_leq 1 0")
        out.append("hist 3 %d ; %s" % (nv, " ; ".join(ops)))
    return out

def chain_oracle(line, ans, rng=None):
    w = domhist.oracle(line, ans, rng)
    if w:
        return w
    ops = line.split(" ; ")
    nv = int(ops[0].split()[2])
    answers = ans.split(" ; ")
    ns = 0; ai = 0
    prev_widen = False
    for o in ops[1:]:
        if ai >= len(answers):
            break
        a = answers[ai]; ai += 1
        if o.startswith("widen"):
            prev_widen = True; continue
        if o.startswith("q_leq 0 2") and prev_widen:
            if a == "false":
                ns += 1
            prev_widen = False
        elif o.startswith("q_leq 1 0"):
            if a == "false":
                return "%s: the second argument of a widening is not included in its result" % line
    bound = 2 * (nv + 2) + 1 + 8 * 1   # 2 bound changes per variable (+ slack for thresholds)
    thr_steps = line.count("widenthr")
    if thr_steps:
        bound += 2 * (nv + 2) * 7       # each bound may climb through <= 7 thresholds
    if ns > bound:
        return "%s: %d non-stationary widening steps (bound %d): the chain does not stabilise" % (line, ns, bound)
    return None
