"""C12 — intervals, zones and octagons are exact on their constraint language; the liftings
never report looser variable bounds than their numerical base domain."""
import vlib, graphdom

TRUSTED = [
    "Coq 8.16.1 kernel (coqc); no native_compute",
    "extraction: ExtrOcamlBasic only, no Extract Constant; OCaml 4.13.1; ocaml/graphdom_drv.ml + zio (zarith for decimal I/O)",
    "correspondence: gen/graphdom.py histories, harness/domhist.hpp + graphdom.cpp (public API of split_dbm_domain, "
    "sparse_dbm_domain, split_oct_domain, interval_domain and the liftings), line diff",
    "concrete semantics = mathematical integers (coq/Ir/Syntax.v)",
    "oracle: exhaustive backtracking search in integer boxes (gen/graphdom.py), relying on the small-model property of "
    "difference / octagonal constraints (radius > sum of the constants)",
]
ASSUME = [
    "Dom/Zone.v and Dom/Oct.v are SPECIFICATION-level models (closed bound matrices): the theorems say the specification "
    "computes the unique exact answer; the C++ graph domains are tied to it by differential testing only",
    "constants of generated constraints are bounded by 2^40 in absolute value (int64 weights of DefaultParams do not check overflow)",
    "octagons: soundness proved, exactness (completeness of tight closure) is stated but not proved (C12_oct_exact_statement)",
    "lifting clause: checked by correspondence and oracle only (same numerical history through the lifted C++ domain must print "
    "exactly the bounds of the specification of its base domain)",
]

STRAIGHT = ["assume"] * 6 + ["assign"] * 4 + ["forget"] * 2 + ["bounds"] * 2 + ["copy", "normalize"]
# split_oct_domain::operator& / &= is a recorded finding (known_findings.json): the octagon
# streams contain no meet; meets on octagons live in the dedicated stream "oct-meet", whose
# histories are small enough for the exhaustive oracle to decide every answer.
NOMEET = ["assume"] * 9 + ["join"] * 4 + ["forget"] * 2 + ["copy"] * 2 + ["normalize", "q_leq", "q_leq", "top", "bounds", "bounds", "assign", "assign"]
OCTMEET = ["assume"] * 5 + ["meet"] * 3 + ["join", "forget", "copy", "q_leq", "bounds"]


def streams(tier):
    q = tier == "quick"
    N = lambda a, b: a if q else b
    small = graphdom.KS_SMALL
    return [
        # name, mode, lang, n, opts, oracle on every line?
        ("zones", "zones", "zone", N(500, 20000), dict(params=True), False),
        ("zones-safe", "zones-safe", "zone", N(150, 5000), dict(params=True), False),
        ("sparse", "sparse", "zone", N(300, 10000), dict(params=True), False),
        ("oct", "oct", "oct", N(500, 20000), dict(params=True, maxvars=4, ops=NOMEET), False),
        ("oct-zone-lang", "oct", "zone", N(150, 5000), dict(params=True, maxvars=4, ops=NOMEET), False),
        ("oct-meet", "oct", "oct", N(120, 3000), dict(params=True, ks=small, maxvars=3, minops=3, maxops=7, maxq=2, ops=OCTMEET, boundary=False, corpus_must="meet"), True),
        ("itv", "itv", "interval", N(200, 5000), dict(), False),
        ("zones-small", "zones", "zone", N(80, 2000), dict(params=True, ks=small, maxvars=3, maxops=10, maxq=3), True),
        ("oct-small", "oct", "oct", N(60, 2000), dict(params=True, ks=small, maxvars=3, maxops=8, maxq=3, ops=NOMEET), True),
        ("itv-small", "itv", "interval", N(60, 2000), dict(ks=small, maxvars=3, maxops=10), True),
        ("lift-bool-zones", "lift-bool-zones", "zone", N(100, 3000), dict(ops=STRAIGHT), False),
        ("lift-smash-zones", "lift-smash-zones", "zone", N(100, 3000), dict(ops=STRAIGHT), False),
        ("lift-prod-itv-zones", "lift-prod-itv-zones", "zone", N(100, 3000), dict(ops=STRAIGHT), False),
        ("lift-prod-zones-itv", "lift-prod-zones-itv", "zone", N(100, 3000), dict(ops=STRAIGHT), False),
        ("lift-bool-itv", "lift-bool-itv", "interval", N(100, 3000), dict(ops=STRAIGHT), False),
        ("lift-smash-itv", "lift-smash-itv", "interval", N(100, 3000), dict(ops=STRAIGHT), False),
    ]


def run(rep, tier, seed, prove=True):
    rep.cov["trusted_base"] = TRUSTED
    rep.cov["rule"] = ("seeded histories of in-language constraints, joins, meets, forgets, copies, normalize and in-language "
                       "assignments over 2-4 registers and 2-5 variables with tight-bound entailment queries (corpus first, then a "
                       "boundary part with small constants, then random); non-trivial = at least 3 distinct printed states that are "
                       "neither bottom nor top and both entailment answers occur; distinct by input line")
    rep.assumptions = ASSUME
    if prove:
        vlib.prove(rep, extra_targets=["Extract/ExtractGraphdom.vo"])
    for i, (name, mode, lang, n, opts, allo) in enumerate(streams(tier)):
        lines = graphdom.gen(seed + i, tier, lang, n=n, opts=opts)
        vlib.run_stream(rep, name, "graphdom", "graphdom", lines, oracle=graphdom.oracle_for(lang),
                        nontrivial=graphdom.nontrivial, key=lambda l: "history",
                        extra_args=("--mode=" + mode,), oracle_all=allo)
