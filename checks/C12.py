"""C12 — intervals, zones and octagons are exact on their constraint language; the liftings
never report looser variable bounds than their numerical base domain."""
import vlib, graphdom

TRUSTED = [
    "Coq 8.16.1 kernel (coqc); no native_compute",
    "extraction: ExtrOcamlBasic only, no Extract Constant; OCaml 4.13.1; ocaml/graphdom_drv.ml + zio (zarith for decimal I/O)",
    "correspondence: gen/graphdom.py histories, harness/domhist.hpp + graphdom.cpp (public API of split_dbm_domain, "
    "sparse_dbm_domain, split_oct_domain, interval_domain and the liftings), line diff",
    "concrete semantics = mathematical integers (coq/Ir/Syntax.v)",
    "oracle: exhaustive backtracking search in integer boxes (gen/graphdom.py), relying on the small-model property of "
    "difference / octagonal constraints (radius > sum of the constants)",
]
ASSUME = [
    "Dom/Zone.v and Dom/Oct.v are SPECIFICATION-level models (closed bound matrices): the theorems say the specification "
    "computes the unique exact answer; the C++ graph domains are tied to it by differential testing only",
    "constants of generated constraints are bounded by 2^40 in absolute value (int64 weights of DefaultParams do not check overflow)",
    "octagons: soundness and exactness (completeness of the tight closure over the integers) are proved about the specification Dom/Oct.v",
    "lifting clause: checked by correspondence and oracle only (same numerical history through the lifted C++ domain must print "
    "exactly the bounds of the specification of its base domain)",
]

STRAIGHT = ["assume"] * 6 + ["assign"] * 4 + ["forget"] * 2 + ["bounds"] * 2 + ["copy", "normalize"]
# split_oct_domain::operator& / &= is a recorded finding (known_findings.json): the octagon
# streams contain no meet; meets on octagons live in the dedicated stream "oct-meet", whose
# histories are small enough for the exhaustive oracle to decide every answer.
NOMEET = ["assume"] * 9 + ["join"] * 4 + ["forget"] * 2 + ["copy"] * 2 + ["normalize", "q_leq", "q_leq", "top", "bounds", "bounds", "assign", "assign"]
CHAINS = ["assume1"] * 12 + ["bounds"] * 2 + ["forget", "copy", "join"]
OCTMEET = ["assume"] * 5 + ["meet"] * 3 + ["join", "forget", "copy", "q_leq", "bounds"]


def streams(tier):
    q = tier == "quick"
    N = lambda a, b: a if q else b
    small = graphdom.KS_SMALL
    return [
        # name, mode, lang, n, opts, oracle on every line?
        ("zones", "zones", "zone", N(500, 20000), dict(params=True), False),
        ("zones-safe", "zones-safe", "zone", N(150, 5000), dict(params=True), False),
        ("sparse", "sparse", "zone", N(300, 10000), dict(params=True), False),
        # long chains of single constraints over 5-7 variables (incremental closure around a new edge)
        ("sparse-chains", "sparse", "zone", N(200, 6000), dict(params=True, minvars=5, maxvars=7, minops=8, maxops=18, maxq=3, ops=CHAINS, boundary=False), False),
        ("zones-chains", "zones", "zone", N(150, 5000), dict(params=True, minvars=5, maxvars=7, minops=8, maxops=18, maxq=3, ops=CHAINS, boundary=False), False),
        ("oct", "oct", "oct", N(500, 20000), dict(params=True, maxvars=4, ops=NOMEET), False),
        ("oct-zone-lang", "oct", "zone", N(150, 5000), dict(params=True, maxvars=4, ops=NOMEET), False),
        ("oct-meet", "oct", "oct", N(120, 3000), dict(params=True, ks=small, maxvars=3, minops=3, maxops=7, maxq=2, ops=OCTMEET, boundary=False, corpus_must="meet"), True),
        ("itv", "itv", "interval", N(200, 5000), dict(), False),
        ("zones-small", "zones", "zone", N(80, 2000), dict(params=True, ks=small, maxvars=3, maxops=10, maxq=3), True),
        ("oct-small", "oct", "oct", N(60, 2000), dict(params=True, ks=small, maxvars=3, maxops=8, maxq=3, ops=NOMEET), True),
        ("itv-small", "itv", "interval", N(60, 2000), dict(ks=small, maxvars=3, maxops=10), True),
        ("lift-bool-zones", "lift-bool-zones", "zone", N(100, 3000), dict(ops=STRAIGHT), False),
        ("lift-smash-zones", "lift-smash-zones", "zone", N(100, 3000), dict(ops=STRAIGHT), False),
        ("lift-prod-itv-zones", "lift-prod-itv-zones", "zone", N(100, 3000), dict(ops=STRAIGHT), False),
        ("lift-prod-zones-itv", "lift-prod-zones-itv", "zone", N(100, 3000), dict(ops=STRAIGHT), False),
        ("lift-bool-itv", "lift-bool-itv", "interval", N(100, 3000), dict(ops=STRAIGHT), False),
        ("lift-smash-itv", "lift-smash-itv", "interval", N(100, 3000), dict(ops=STRAIGHT), False),
    ]


def _eval1(exe, mode, line, tag):
    import os
    cf = os.path.join(vlib.VERIF, "out", "C12", "one-%s.cases" % tag)
    with open(cf, "w") as f:
        f.write(line + "\n")
    if tag == "m":       # the model driver takes the case file as its last argument
        rc, out = vlib.sh([exe, "--mode=" + mode, cf], timeout=60)
        for l in out.split("\n"):
            if l.startswith("R 0"):
                return l[4:]
        return "MISSING"
    r = vlib.run_harness_resilient(exe, ("--mode=" + mode,), cf, 1, timeout=60)
    return r.get(0, "MISSING")


def _split(line):
    toks = line.split()
    pre = ""
    if toks[0] == "P":
        pre = "P %s " % toks[1]
        toks = toks[2:]
    parts = " ".join(toks).split(" ; ")
    return pre, parts[0], parts[1:]


def shrink(hexe, dexe, mode, line, budget=150):
    """delta-debugging on the operation list: drop operations while both sides still differ"""
    pre, head, ops = _split(line)
    mk = lambda o: pre + head + " ; " + " ; ".join(o)
    n = [0]

    def bad(o):
        n[0] += 1
        if n[0] > budget or not o:
            return False
        l = mk(o)
        return _eval1(hexe, mode, l, "h") != _eval1(dexe, mode, l, "m")
    if not bad(ops):
        return line
    a = _eval1(hexe, mode, line, "h").split(" ; "); m = _eval1(dexe, mode, line, "m").split(" ; ")
    for j, (x, y) in enumerate(zip(a, m)):
        if x != y:
            if bad(ops[:j + 1]):
                ops = ops[:j + 1]
            break
    i = len(ops) - 2
    while i >= 0:
        t = ops[:i] + ops[i + 1:]
        if bad(t):
            ops = t
        i -= 1
    return mk(ops)


def _mode_of(stream):
    for name, mode, lang, n, opts, allo in streams("quick"):
        if name == stream:
            return mode, lang
    return None, None


def _shrink_replays(rep):
    """add a minimised history (and the oracle's verdict on it) to every replay file"""
    import re
    hexe, e1 = vlib.build_harness("graphdom")
    dexe, e2 = vlib.build_driver("graphdom")
    if e1 or e2:
        return
    for p, wit, _ in rep.violations:
        try:
            txt = open(p).read()
            ms = re.search(r"^stream=(\S+) case=", txt, flags=re.M)
            mi = re.search(r"^input: (.*)$", txt, flags=re.M)
            if not ms or not mi:
                continue
            mode, lang = _mode_of(ms.group(1))
            if mode is None:
                continue
            small = shrink(hexe, dexe, mode, mi.group(1))
            a = _eval1(hexe, mode, small, "h"); m = _eval1(dexe, mode, small, "m")
            w = graphdom.oracle_for(lang)(small, a, None)
            with open(p, "a") as f:
                f.write("shrunk input: %s\nimplementation: %s\nmodel: %s\noracle on the shrunk input: %s\n" % (small, a, m, w))
        except Exception:
            pass


def replay(path):
    """re-run one recorded case (the line after 'shrunk input:' if present, else 'input:')"""
    import re
    txt = open(path).read()
    ms = re.search(r"^stream=(\S+) case=", txt, flags=re.M)
    mi = re.search(r"^shrunk input: (.*)$", txt, flags=re.M) or re.search(r"^input: (.*)$", txt, flags=re.M)
    if not ms or not mi:
        print(txt)
        return 1
    mode, lang = _mode_of(ms.group(1))
    hexe, e1 = vlib.build_harness("graphdom")
    dexe, e2 = vlib.build_driver("graphdom")
    if e1 or e2 or mode is None:
        print(e1 or e2 or "unknown stream")
        return 1
    line = mi.group(1)
    a = _eval1(hexe, mode, line, "h"); m = _eval1(dexe, mode, line, "m")
    print("stream:         %s (--mode=%s)" % (ms.group(1), mode))
    print("input:          " + line)
    print("implementation: " + a)
    print("model:          " + m)
    print("oracle:         " + str(graphdom.oracle_for(lang)(line, a, None)))
    return 0 if a == m else 1


def run(rep, tier, seed, prove=True):
    rep.cov["trusted_base"] = TRUSTED
    rep.cov["rule"] = ("seeded histories of in-language constraints, joins, meets, forgets, copies, normalize and in-language "
                       "assignments over 2-4 registers and 2-5 variables with tight-bound entailment queries (corpus first, then a "
                       "boundary part with small constants, then random); non-trivial = at least 3 distinct printed states that are "
                       "neither bottom nor top and both entailment answers occur; distinct by input line")
    rep.assumptions = ASSUME
    if prove:
        vlib.prove(rep, extra_targets=["Extract/ExtractGraphdom.vo"])
    for i, (name, mode, lang, n, opts, allo) in enumerate(streams(tier)):
        lines = graphdom.gen(seed + i, tier, lang, n=n, opts=opts)
        vlib.run_stream(rep, name, "graphdom", "graphdom", lines, oracle=graphdom.oracle_for(lang),
                        nontrivial=graphdom.nontrivial, key=lambda l: "history",
                        extra_args=("--mode=" + mode,), oracle_all=allo)
    if rep.violations:
        _shrink_replays(rep)
