"""Witness search over the native domains that have no Coq model (DESIGN.md 3.2, and the
"Search" items of C03/C04/C05/C16).  Operation histories are executed on the real C++
domains (harness/domall{1,2,3}.cpp, one --mode per domain) and a python oracle replays
them on sampled concrete stores (gen/domhist.py, gen/domall_extra.py) and checks every
answer.  There is no model to compare with: the oracle is applied to every case.

What is checked per property
  C03  at(v) contains the value, exported constraints hold, entails true => holds, not
       bottom while a store exists, after every operation of a general history;
  C04  leq true => stores of the left are inside the right's printed intervals and exported
       constraints; join/meet results against the stores; reflexivity, bottom/top cases;
  C03 and C04 also run the sub-stream "bool" (domall_extra.bool_histories): boolean
       operations (b := constraint, (negated) copies, and/or/xor, select_bool, assume_bool,
       weak assignments, b := trunc(v), zext) mixed with everything that invalidates what a
       domain remembers about a boolean; q_bat = what is known about a boolean; leqprobe =
       if s <= t is answered true, the stores of s that pass assume_bool(b) must be inside
       what t reports after the same assume_bool (a value that remembers "b implies x <= 0"
       does not include one that does not).  Most cases go to flat_boolean_numerical_domain
       (bool-itv, bool-sparse), then to the domains that forward or interpret boolean
       operations (uf, powersets, wrappers); for the others they are no-ops that must not
       leave stale facts;
  C05  every step of a widening chain is sound and the chain stabilises (interval-shaped
       chains of checks/domcommon.py with its bound, relational chains with
       domall_extra.chain_bound), plus general histories with widening/narrowing;
  C16  copy-heavy histories incl. the wrappers abstract_domain / abstract_domain_ref around
       zones: every answer sound; the same history with normalize()/minimize()/queries
       injected must give the same answers; the wrappers must answer like the bare domain.
An abort (CRAB_ERROR, crash) on a history of the searched fragment is a hit as well.

A hit is shrunk (delta debugging against the real code, the class of the oracle message
kept fixed), then matched against known_findings.json (entries whose `stream` is
"search-<domain>" or "search-*": `line_regex` is matched against the *shrunk* history,
the optional `witness_regex` against the oracle message); what matches is reported as
KNOWN-FINDING, anything else as a VIOLATION with the failing input."""
import os, re, sys, time, random, json, zlib
from concurrent.futures import ThreadPoolExecutor
_V = os.path.dirname(os.path.dirname(os.path.abspath(__file__)))
for _p in ("bin", "gen", "checks"):
    if os.path.join(_V, _p) not in sys.path:
        sys.path.insert(0, os.path.join(_V, _p))
import vlib, domhist, domhist, domcommon
import domall_extra as X

# name, translation unit, relational?, k = dimension factor of the chain bound (ghost
# variables), asc_widen = widening only defined on ascending arguments
DOMAINS = [
    dict(name="zones", tu="domall1", rel=True),
    dict(name="zones-safe", tu="domall1", rel=True),
    dict(name="sparse", tu="domall1", rel=True),
    dict(name="pack", tu="domall1", rel=True),
    dict(name="tvpi", tu="domall1", rel=True, k=3),
    dict(name="vpart", tu="domall1", rel=True),
    dict(name="gen-zones", tu="domall1", rel=True, wrapper_of="zones"),
    dict(name="ref-zones", tu="domall1", rel=True, wrapper_of="zones"),
    dict(name="oct", tu="domall2", rel=True),
    dict(name="oct-nr", tu="domall2", rel=True),       # oct.widen_restabilize = false
    dict(name="zones-nr", tu="domall1", rel=True),     # zones.widen_restabilize = false
    dict(name="look-oct", tu="domall2", rel=True, asc_widen=True),
    dict(name="term-itv", tu="domall2", rel=True),
    dict(name="term-zones", tu="domall2", rel=True),
    dict(name="term-dis", tu="domall2", rel=True),
    dict(name="uf", tu="domall2", rel=True),
    dict(name="num", tu="domall2", rel=True),
    dict(name="disitv", tu="domall3", rel=False),
    dict(name="cong", tu="domall3", rel=False),
    dict(name="ric", tu="domall3", rel=False),
    dict(name="sign", tu="domall3", rel=False),
    dict(name="const", tu="domall3", rel=False),
    dict(name="signconst", tu="domall3", rel=False),
    dict(name="prod-ic", tu="domall3", rel=False),
    dict(name="bool-itv", tu="domall3", rel=False),
    dict(name="bool-sparse", tu="domall3", rel=True),
    dict(name="pow-itv", tu="domall3", rel=False),
    dict(name="pow-zones", tu="domall3", rel=True),
    # only the boolean sub-stream of C03/C04: powerset forwarding the boolean operations to disjuncts that implement them
    dict(name="pow-bool", tu="domall3", rel=False, bool_only=True),
]
EXCLUDED = {
    "wrapped_interval_domain": "machine-integer semantics (wrap-around at the bit width): not comparable with the mathematical-integer oracle on this fragment; covered by C13",
    "boxes_domain": "needs the LDD library (not built in this tree)",
    "apron_domain / elina_domain (incl. pplite)": "external libraries not built in this tree",
    "array_smashing / array_adaptive / region_domain": "not numerical-only: searched by C14/C15",
    "bitwise / unsigned / cast operators": "never generated (concrete meaning depends on the bit width); the bool sub-stream uses zext bool->int and trunc int->bool of a value in {0,1}, which mean the same on every reading",
    "assign_bool_ref_cst, backward boolean operations, linear constraints over boolean variables": "reference constraints need a region domain (C15); assume/assign over booleans are rejected by crab's type checker",
}
CHECKS = {"C03": ("at", "entails", "csts", "bot"), "C04": ("leq", "at", "bot", "csts", "entails"),
          "C05": ("at", "csts", "bot", "leq"), "C16": ("at", "entails", "csts", "bot", "leq", "botcsts")}
MAX_SHRINK_PER_BUCKET = 2
MAX_SHRUNK = 12
NWORKERS = 4


def sizes(tier, prop):
    """histories per domain"""
    if tier == "quick":
        return {"C03": 200, "C04": 240, "C05": 60, "C16": 120}[prop]
    return {"C03": 5000, "C04": 4000, "C05": 1200, "C16": 2500}[prop]


BOOL_DOMAINS = ("bool-itv", "bool-sparse")          # flat_boolean_numerical_domain: reduction in both directions
BOOL_FORWARDING = ("uf", "pow-bool", "pow-itv", "pow-zones", "gen-zones", "ref-zones", "vpart")   # terms over booleans / forwarding wrappers


def bool_sizes(tier, prop, dom):
    """histories of the boolean sub-stream per domain"""
    q = tier == "quick"
    if dom["name"] in BOOL_DOMAINS:
        return 450 if q else 12000
    if dom["name"] == "pow-bool":
        return 150 if q else 4000
    if dom["name"] in BOOL_FORWARDING:
        return 60 if q else 1500
    return 25 if q else 600


def zlib_id(s):
    return zlib.crc32(s.encode()) % 1000


# ---------------------------------------------------------------- running the harness

def norm_msg(out_lines):
    """the CRAB_ERROR / assertion text of an aborted run, without process-specific parts"""
    m = [x for x in out_lines if x and not x.startswith("R ")]
    t = " ".join(m) if m else "no message (crash)"
    a = re.search(r"(\w+\.hpp:\d+): .*Assertion [`'](.*?)' failed", t)
    if a:
        return "assertion `%s' failed at %s" % (a.group(2)[:160], a.group(1))
    t = t[-400:]
    t = re.sub(r"^.*?h-domall\d-\w+: ", "", t)
    t = re.sub(r"/\S*/include/crab/", "crab/", t)
    return t.strip()[:300]


def run_cases(exe, mode, lines, path, timeout=900):
    """run the harness on the cases; CRAB_ERROR / assert / crash end the process: the case
    gets 'ABORT <message>' and the run restarts after it"""
    with open(path, "w") as f:
        f.write("\n".join(lines) + "\n")
    res = {}
    start = 0
    t0 = time.time()
    n = len(lines)
    while start < n and time.time() - t0 < timeout:
        rc, out = vlib.sh([exe, "--mode=" + mode, path, str(start)], timeout=timeout)
        last = start - 1
        ol = out.split("\n")
        for l in ol:
            if l.startswith("R "):
                sp = l.split(" ", 2)
                try:
                    i = int(sp[1])
                except ValueError:
                    continue
                res[i] = sp[2] if len(sp) > 2 else ""
                last = max(last, i)
        if last + 1 >= n:
            break
        res[last + 1] = "ABORT " + ("timeout" if rc == 124 else norm_msg(ol))
        start = last + 2
    return [res.get(i, "MISSING") for i in range(n)]


def is_abort(a):
    return a.startswith("ABORT") or a == "MISSING"


def abort_class(ans):
    return re.sub(r"\bv\d+\b", "v_", ans[6:])[:200]


def abort_oracle(line, ans):
    if ans.startswith("ABORT"):
        return "step 0 (abort) of: %s: the domain aborted on an input inside the searched fragment: %s" % (line, abort_class(ans))
    return None


def kind_of(w):
    m = re.search(r"the domain aborted on an input inside the searched fragment: (.*)$", w)
    if m:
        return "abort:" + m.group(1)
    return X.kind_of(w)


# ---------------------------------------------------------------- shrinking

def shrink(exe, mode, line, oracle, kind, scratch, budget=40):
    """greedy delta debugging on the operation list: drop chunks, then single operations,
    as long as the real code still produces an answer the oracle rejects in the same
    class.  `forget` immediately before `rename`/`expand` is kept (their precondition)."""
    ops = line.split(" ; ")
    head, body = ops[0], ops[1:]
    best_w = None

    def cands(body, size):
        out = []
        i = 0
        while i < len(body):
            j = min(len(body), i + size)
            guarded = j < len(body) and body[j - 1].startswith("forget") and body[j].split()[0] in ("rename", "expand")
            guarded = guarded or (j < len(body) and body[j - 1].startswith("assume") and " ne " in body[j - 1] and
                                  body[j].startswith("arith") and body[j].split()[2] in ("sdiv", "srem"))
            if not guarded:
                out.append(body[:i] + body[j:])
            i += size
        return out

    size = max(1, len(body) // 2)
    rounds = 0
    while rounds < budget:
        rounds += 1
        cs = [c for c in cands(body, size) if c]
        if not cs:
            break
        # the oracle samples its stores from a seed derived from the text: try each
        # candidate also with one and two trailing no-op queries
        cs = [c + extra for c in cs for extra in ([], ["q_at 0"], ["q_at 0", "q_at 0"])]
        lines = [head + " ; " + " ; ".join(c) for c in cs]
        answers = run_cases(exe, mode, lines, scratch, timeout=120)
        hit = None
        for c, l, a in zip(cs, lines, answers):
            try:
                w = oracle(l, a)
            except Exception:
                w = None
            if w and kind_of(w) == kind:
                hit = (c, w)
                break
        if hit:
            body, best_w = hit
            while len(body) > 3 and body[-3:] == ["q_at 0"] * 3:
                body = body[:-1]
            size = max(1, min(size, len(body) // 2))
        elif size > 1:
            size //= 2
        else:
            break
    return head + " ; " + " ; ".join(body), best_w


def match_known(known, prop, stream, line, w):
    for k in known:
        if k.get("property") != prop:
            continue
        s = k.get("stream", "")
        if not (s == stream or (s.endswith("*") and stream.startswith(s[:-1]))):
            continue
        if not re.search(k.get("line_regex", ""), line):
            continue
        if k.get("witness_regex") and not re.search(k["witness_regex"], w):
            continue
        return k
    return None


# ---------------------------------------------------------------- examining one stream of one domain

class DomResult:
    def __init__(self, name):
        self.st = {"cases": 0, "oracle_violations": 0, "aborts": 0, "distinct_nontrivial": 0}
        self.violations = []      # (tag, text, witness?)
        self.known = []
        self.nshrunk = 0


def examine(res, prop, dom, exe, stream, sub, lines, answers, oracle, known, shrink_ok=True):
    """oracle on every case; bucket the hits by (class of message, operation of the failing
    step); shrink a few per bucket; record violations / known findings in res"""
    st = res.st
    d = os.path.join(vlib.VERIF, "out", prop)
    buckets = {}
    st["cases"] += len(lines)
    nontriv = 0
    for l, a in zip(lines, answers):
        if is_abort(a):
            st["aborts"] += 1
            c = abort_class(a) if a.startswith("ABORT") else "no answer"
            st.setdefault("abort_classes", {})
            st["abort_classes"][c] = st["abort_classes"].get(c, 0) + 1
            buckets.setdefault(("abort:" + c, "abort"), []).append((l, a, abort_oracle(l, a) or "step 0 (abort) of: %s: no answer" % l))
            continue
        try:
            w = oracle(l, a)
        except Exception as e:
            w = None
            st["oracle_errors"] = st.get("oracle_errors", 0) + 1
            st.setdefault("oracle_error_sample", "%r on %s" % (e, l[:300]))
        if w:
            st["oracle_violations"] += 1
            buckets.setdefault((kind_of(w), X.step_of(w)), []).append((l, a, w))
        elif domhist.nontrivial(l, a):
            nontriv += 1
    st["distinct_nontrivial"] += nontriv
    for (kind, step), hits in sorted(buckets.items()):
        reported = set()
        for (l, a, w) in hits[:MAX_SHRINK_PER_BUCKET]:
            l2, w2 = l, w
            if shrink_ok and kind != "nonstab" and res.nshrunk < MAX_SHRUNK:
                res.nshrunk += 1
                l2, w2 = shrink(exe, dom["name"], l, (abort_oracle if kind.startswith("abort:") else oracle), kind,
                                os.path.join(d, "%s-%s.shrink" % (stream, sub)))
                w2 = w2 or w
            if l2 in reported:
                continue
            reported.add(l2)
            kn = match_known(known, prop, stream, l2, w2)
            if kn:
                res.known.append("%s [%s, %d hit(s) of this class] input: %s" % (kn["what"], stream, len(hits), l2))
                st["known"] = st.get("known", 0) + 1
            else:
                tag = "%s-%s-%s-%s-%d" % (stream, sub, re.sub(r"\W+", "_", kind)[:40], re.sub(r"\W+", "_", step), len(reported))
                text = ("FAILING INPUT (property oracle on the answer of the real %s domain, no model involved): %s\n"
                        "domain=%s stream=%s/%s class=%s hits-of-this-class=%d\nshrunk history: %s\noriginal history: %s\n"
                        "replay: python3 checks/domall.py %s --dom %s --replay '<history>'\n"
                        % (dom["name"], w2, dom["name"], stream, sub, kind, len(hits), l2, l, prop, dom["name"]))
                res.violations.append((tag, text, True))


def canon_answer(a):
    """answers that only differ in how `false` / `true` is written are equal"""
    if a.startswith("{"):
        cs = [c for c in a[1:-1].split(",") if c]
        out = []
        for c in cs:
            p = c.split(":")
            if len(p) == 3 and p[1] == "":
                k = int(p[2])
                holds = {"eq": k == 0, "ne": k != 0, "le": k <= 0, "lt": k < 0}[p[0]]
                if not holds:
                    return "{false}"
                continue
            out.append(c)
        return "{" + ",".join(sorted(out)) + "}"
    return a


def diff_oracle_factory(expected):
    """oracle for the differential C16 checks: `expected` maps a history to the list of
    (index into the answers, expected answer)"""
    def orc(line, ans):
        exp = expected.get(line)
        if exp is None or is_abort(ans):
            return None
        parts = ans.split(" ; ")
        ops = line.split(" ; ")[1:]
        for i, e in exp:
            if i < len(parts) and canon_answer(parts[i]) != canon_answer(e):
                return ("step %d (%s) of: %s: the answer %s differs from %s given by the reference run (%s)"
                        % (i + 1, ops[i] if i < len(ops) else "?", line, parts[i], e, expected["__what__"]))
        return None
    return orc


def run_domain(prop, tier, seed, dom, exe, n, known, shrink_ok, base_answers):
    name = dom["name"]
    stream = "search-" + name
    res = DomResult(name)
    st = res.st
    outd = os.path.join(vlib.VERIF, "out", prop)
    checks = CHECKS[prop]
    k = dom.get("k", 1)
    hopts = dict(drop=dom.get("drop", ()), asc_widen=dom.get("asc_widen", False), rel=dom["rel"])
    orc = lambda l, a: X.oracle_ext(l, a, None, checks)
    # corpus (minimal histories of past findings) first, then the structured random stream
    lines = [X.ascending_widen(l) if dom.get("asc_widen") else l for l in X.CORPUS]
    lines += X.histories(seed + 1000 + zlib_id(prop), prop, n, **hopts)
    if dom.get("bool_only"):
        lines = list(X.CORPUS)
    if tier != "quick" and not dom.get("bool_only"):
        # constants up to 2^62: arbitrary precision in the non-relational domains; the graph
        # domains with DefaultParams compute on unchecked int64 weights (known finding),
        # SafeInt64DefaultParams stops with CRAB_ERROR on overflow
        lines += X.histories(seed + 2000, prop, n // (8 if dom["rel"] else 4), big=True, **hopts)
    answers = run_cases(exe, name, lines, os.path.join(outd, stream + ".cases"))
    examine(res, prop, dom, exe, stream, "hist", lines, answers, orc, known, shrink_ok)
    if prop == "C04":
        # binary operations on boxes whose bounds move independently up / down between the operands
        bl = X.box_joins(seed + 44, 150 if tier == "quick" else 3000)
        if dom.get("asc_widen"):
            bl = [X.ascending_widen(l) for l in bl]
        ba = run_cases(exe, name, bl, os.path.join(outd, stream + "-box.cases"))
        examine(res, prop, dom, exe, stream, "box", bl, ba, orc, known, shrink_ok)
        st["box_cases"] = len(bl)
        # lattice operations on sign classes
        gl = X.sign_lattice(seed + 47, 200 if tier == "quick" else 486)
        if dom.get("asc_widen"):
            gl = [X.ascending_widen(l) for l in gl]
        ga = run_cases(exe, name, gl, os.path.join(outd, stream + "-signl.cases"))
        examine(res, prop, dom, exe, stream, "signl", gl, ga,
                lambda l, a: domhist.oracle(l, X.drop_ghost_csts(a), None, checks, dense=True), known, shrink_ok)
        # meets of arithmetic progressions, judged on a dense sample of small stores
        cl = X.cong_meets(seed + 45, 40 if tier == "quick" else 800)
        ca = run_cases(exe, name, cl, os.path.join(outd, stream + "-cong.cases"))
        examine(res, prop, dom, exe, stream, "cong", cl, ca,
                lambda l, a: domhist.oracle(l, X.drop_ghost_csts(a), None, checks, dense=True), known, shrink_ok)
    if prop in ("C03", "C04"):
        # boolean operations (never generated by the streams above): reified constraints,
        # their invalidation, boolean combinations, assume_bool, lattice operations and inclusion
        # on values that remember constraints.  Most cases go to the domains that implement
        # booleans; for the others the boolean operations are no-ops that must not leave stale facts.
        tb = time.time()
        nbool = bool_sizes(tier, prop, dom)
        bl = [X.ascending_widen(l) if dom.get("asc_widen") else l for l in X.BOOL_CORPUS]
        bl += X.bool_histories(seed + 77 + zlib_id(prop), nbool, prop, asc_widen=dom.get("asc_widen", False))
        ba = run_cases(exe, name, bl, os.path.join(outd, stream + "-bool.cases"))
        examine(res, prop, dom, exe, stream, "bool", bl, ba, lambda l, a: X.bool_oracle(l, a, checks), known, shrink_ok)
        st["bool_cases"] = len(bl)
        st["bool_s"] = round(time.time() - tb, 1)
    if prop == "C03":
        # sign algebra: operands pinned to each sign class, then every arithmetic operator, then sign probes
        sl = X.sign_cases(seed + 46, 120 if tier == "quick" else 2000)
        sa = run_cases(exe, name, sl, os.path.join(outd, stream + "-sign.cases"))
        examine(res, prop, dom, exe, stream, "sign", sl, sa,
                lambda l, a: domhist.oracle(l, X.drop_ghost_csts(a), None, checks, dense=True), known, shrink_ok)
    if prop == "C03" and dom["rel"]:
        # decomposition of general linear constraints against established bounds, with a
        # dense sample of the solutions (domall_extra.lin_samples)
        ll = X.lin_histories(seed + 33, 200 if tier == "quick" else 3000)
        la = run_cases(exe, name, ll, os.path.join(outd, stream + "-lin.cases"))
        ne = [0]

        def lin_orc(l, a):
            w, nonempty = X.lin_oracle(l, a)
            return w

        examine(res, prop, dom, exe, stream, "lin", ll, la, lin_orc, known, shrink_ok)
        st["lin_cases"] = len(ll)
        st["lin_nonempty_sample_fraction"] = round(sum(1 for l in ll if (X.lin_samples(l) or [[]])[-1]) / float(len(ll)), 3)
    if prop == "C16":
        base_answers[name] = (lines, answers)
        # (iii) normalize()/minimize()/queries injected: sound, and same answers as without
        rng = random.Random(seed + 16)
        inj = [X.with_normalize(l, rng) for l in lines]
        il = [x[0] for x in inj]
        ans2 = run_cases(exe, name, il, os.path.join(outd, stream + "-inj.cases"))
        examine(res, prop, dom, exe, stream, "inj", il, ans2, orc, known, shrink_ok)
        expected = {"__what__": "the same history without the injected normalize()/minimize()/query calls"}
        for (l, a), (l2, keep) in zip(zip(lines, answers), inj):
            if not is_abort(a):
                expected[l2] = list(zip(keep, a.split(" ; ")))
        examine(res, prop, dom, exe, stream, "inj-diff", il, ans2, diff_oracle_factory(expected), known, shrink_ok=False)
        # (iv) twins: a copy made by assignment and its original see the same operations
        tl = (X.twin_scripted(rng, 40 if tier == "quick" else 600) + X.lazy_join_scripted(rng, 40 if tier == "quick" else 600)
              + [x for x in (X.twin(l, rng) for l in lines) if x])
        ta = run_cases(exe, name, tl, os.path.join(outd, stream + "-twin.cases"))
        examine(res, prop, dom, exe, stream, "twin", tl, ta, X.twin_oracle, known, shrink_ok=False)
        st["twin_cases"] = len(tl)
        w = dom.get("wrapper_of")
        if w and w in base_answers:
            bl, ba = base_answers[w]
            expected = {"__what__": "the bare %s domain on the same history" % w}
            for l, b in zip(bl, ba):
                if not is_abort(b):
                    expected[l] = list(enumerate(b.split(" ; ")))
            examine(res, prop, dom, exe, stream, "wrapper-diff", lines, answers, diff_oracle_factory(expected), known, shrink_ok=False)
    if prop == "C05":
        # widenings whose operands are joins of disjoint boxes (one / several disjuncts on either side)
        dl = X.dis_widen(seed + 48, 120 if tier == "quick" else 3000)
        if dom.get("asc_widen"):
            dl = [X.ascending_widen(l) for l in dl]
        da = run_cases(exe, name, dl, os.path.join(outd, stream + "-diswiden.cases"))
        examine(res, prop, dom, exe, stream, "diswiden", dl, da, orc, known, shrink_ok)
        st["diswiden_cases"] = len(dl)
    if prop == "C05":
        # interval-shaped chains of the modelled domain, with its bound
        ch = domcommon.widen_chains(seed + 5, max(10, n // 3))
        # relational chains, long enough to exceed the bound if the widening does not stabilise
        rc = X.rel_chains(seed + 6, max(4, n // 15), None, maxvars=(2 if k > 1 else 3), k=k)
        if dom.get("asc_widen"):
            ch = [X.ascending_widen(l) for l in ch]
            rc = [X.ascending_widen(l) for l in rc]
        ans = run_cases(exe, name, ch, os.path.join(outd, stream + "-chains.cases"))
        examine(res, prop, dom, exe, stream, "chains", ch, ans, lambda l, a: chain_oracle_k(l, a, k), known, shrink_ok)
        ans = run_cases(exe, name, rc, os.path.join(outd, stream + "-relchains.cases"))
        st["chain_steps"] = "3 x bound + 10"
        examine(res, prop, dom, exe, stream, "relchains", rc, ans, lambda l, a: X.rel_chain_oracle(l, a, None, k), known, shrink_ok)
    return res


def chain_oracle_k(line, ans, k):
    if is_abort(ans):
        return None
    ans = X.drop_ghost_csts(ans)
    w = domcommon.chain_oracle(line, ans)
    if w and "second argument of a widening" in w:
        # completeness of the inclusion test, not soundness of the widening (the result is
        # checked on the stores): not required from the un-modelled domains
        return None
    if w and "non-stationary" in w and k > 1:
        return X.rel_chain_oracle(line, ans, None, k, sound=False)    # bound with the ghost dimensions
    if w and not w.startswith("step"):
        w = "step 0 (widen) of: " + w
    return w


def search(rep, tier, seed, prop, only=None, n=None, shrink_ok=True):
    t0 = time.time()
    doms = [d for d in DOMAINS if only is None or d["name"] in only]
    doms = [d for d in doms if not d.get("bool_only") or prop in ("C03", "C04")]
    tus = sorted(set(d["tu"] for d in doms))
    built = vlib.build_harnesses(tus)
    known = [k for k in vlib.load_known().get("findings", []) if str(k.get("stream", "")).startswith("search-")]
    n = n or sizes(tier, prop)
    os.makedirs(os.path.join(vlib.VERIF, "out", prop), exist_ok=True)
    info = rep.cov.setdefault("search", {})
    info["excluded"] = EXCLUDED
    info["domains"] = [d["name"] for d in doms]
    info["histories_per_domain"] = n
    info["rule"] = ("per domain: corpus of minimal past findings, then seeded random histories over the fragment with unambiguous "
                    "concrete meaning (linear assign, + - *, sdiv/srem by non-zero operands, assume, forget/project/expand/rename under "
                    "their preconditions, join/meet/widen/narrow, copy, normalize/minimize, select, weak assign); every second history of a "
                    "relational domain is in the octagon language; oracle = <=48 sampled stores per register pushed through the same "
                    "operations; non-trivial as in C03")
    base_answers = {}
    results = {}
    bad = [d for d in doms if built[d["tu"]][1]]
    for d in bad:
        rep.cov["streams"]["search-" + d["name"]] = {"cases": 0, "oracle_violations": 0, "aborts": 0}
    for tu in sorted(set(d["tu"] for d in bad)):
        rep.violation("search-%s-build" % tu, "witness search: %s" % built[tu][1], False)
    good = [d for d in doms if not built[d["tu"]][1]]
    # wrappers need the answers of the bare domain: bare domains first
    first = [d for d in good if not d.get("wrapper_of")]
    second = [d for d in good if d.get("wrapper_of")]
    for group in (first, second):
        with ThreadPoolExecutor(NWORKERS) as ex:
            futs = {d["name"]: ex.submit(run_domain, prop, tier, seed, d, built[d["tu"]][0], n, known, shrink_ok, base_answers) for d in group}
            for name, f in futs.items():
                try:
                    results[name] = f.result()
                except Exception as e:      # e.g. the build directory was pruned by a concurrent check
                    r = DomResult(name)
                    r.violations.append(("search-%s-error" % name, "witness search on %s could not be run: %r" % (name, e), False))
                    results[name] = r
    for d in good:
        r = results[d["name"]]
        rep.cov["streams"]["search-" + d["name"]] = r.st
        rep.cov["evaluations"] += r.st["cases"]
        rep.cov["distinct_nontrivial"] = rep.cov.get("distinct_nontrivial", 0) + r.st["distinct_nontrivial"]
        for kf in r.known:
            rep.known_finding(kf)
        for tag, text, wit in r.violations:
            rep.violation(tag, text, wit)
    info["wall_s"] = round(time.time() - t0, 1)


class _Rep:
    """stand-alone report for the command line"""
    def __init__(self, prop):
        self.prop = prop
        self.cov = {"streams": {}, "evaluations": 0, "distinct_nontrivial": 0}
        self.v = []; self.k = []

    def violation(self, tag, text, w):
        self.v.append((tag, text))

    def known_finding(self, what):
        self.k.append(what)


if __name__ == "__main__":
    import argparse
    ap = argparse.ArgumentParser()
    ap.add_argument("prop")
    ap.add_argument("--dom", default=None)
    ap.add_argument("--n", type=int, default=None)
    ap.add_argument("--seed", type=int, default=20260925)
    ap.add_argument("--tier", default="quick")
    ap.add_argument("--no-shrink", action="store_true")
    ap.add_argument("--replay", help="a history (text) or a file holding one: run it on --dom, print every step with its answer")
    ap.add_argument("--shrink", action="store_true", help="with --replay: shrink first")
    a = ap.parse_args()
    if os.environ.get("DOMALL_PRIVATE_BUILD", "1") == "1":
        # exploration from the command line: a private build cache, so that concurrent checks
        # (which prune build/impl-*) do not remove the tree being compiled
        vlib.BUILD = os.path.join(vlib.VERIF, "build", "domall-scratch")
    if a.replay:
        line = open(a.replay).read().strip().split("\n")[0] if os.path.exists(a.replay) else a.replay
        m = re.search(r"(hist \d+ \d+ ;.*)$", line)
        line = m.group(1) if m else line
        for dn in a.dom.split(","):
            dom = [d for d in DOMAINS if d["name"] == dn][0]
            exe, err = vlib.build_harness(dom["tu"])
            if err:
                print(err); sys.exit(1)
            sc = os.path.join(vlib.VERIF, "out", "replay-%s.cases" % dn)
            orc = lambda l, x: (X.rel_chain_oracle(l, x, None, dom.get("k", 1)) if a.prop == "C05" and "q_leq 0 2" in l else X.oracle_ext(l, x, None, CHECKS[a.prop]))
            ans = run_cases(exe, dn, [line], sc)[0]
            w = orc(line, ans) or abort_oracle(line, ans)
            if a.shrink and w:
                line, w = shrink(exe, dn, line, (abort_oracle if ans.startswith("ABORT") else orc), kind_of(w), sc + ".s")
                ans = run_cases(exe, dn, [line], sc)[0]
            print("== %s" % dn)
            print(line)
            parts = ans.split(" ; ")
            for i, o in enumerate(line.split(" ; ")[1:]):
                print("%3d  %-60s -> %s" % (i + 1, o, parts[i] if i < len(parts) else "?"))
            if ans.startswith("ABORT"):
                print(ans)
                ol = line.split(" ; ")
                pre = [" ; ".join(ol[:j]) for j in range(2, len(ol) + 1)]
                pa = run_cases(exe, dn, pre, sc)
                for j, x in enumerate(pa):
                    if x.startswith("ABORT"):
                        print("first aborting prefix ends at step %d (%s); answers before: %s" % (j + 1, ol[j + 1], pa[j - 1] if j else ""))
                        break
            print("oracle:", w)
        sys.exit(0)
    rep = _Rep(a.prop)
    t = time.time()
    search(rep, a.tier, a.seed, a.prop, only=a.dom.split(",") if a.dom else None, n=a.n, shrink_ok=not a.no_shrink)
    for name, st in rep.cov["streams"].items():
        print(name, json.dumps(st)[:600])
    for k in rep.k:
        print("KNOWN:", k[:400])
    for tag, text in rep.v:
        print("VIOLATION", tag)
        print("   " + "\n   ".join(text.split("\n")[:3]))
    print("wall %.1f s, %d evaluations, %d non-trivial, %d violations, %d known" % (time.time() - t, rep.cov["evaluations"], rep.cov["distinct_nontrivial"], len(rep.v), len(rep.k)))
