"""Witness search over the native domains that have no Coq model (DESIGN.md 3.2, and the
"Search" items of C03/C04/C05/C16).  Operation histories are executed on the real C++
domains (harness/domall{1,2,3}.cpp, one --mode per domain) and a python oracle replays
them on sampled concrete stores (gen/domhist.py, gen/domall_extra.py) and checks every
answer.  There is no model to compare with: the oracle is applied to every case.

A hit is shrunk (delta debugging against the real code, the class of the oracle message
kept fixed), then matched against known_findings.json (entries with
stream = "search-<domain>" or "search-*": `line_regex` is matched against the *shrunk*
history, the optional `witness_regex` against the oracle message); what matches is
reported as KNOWN-FINDING, anything else as a VIOLATION with the failing input."""
import os, re, sys, time, random, json
_V = os.path.dirname(os.path.dirname(os.path.abspath(__file__)))
for _p in ("bin", "gen", "checks"):
    if os.path.join(_V, _p) not in sys.path:
        sys.path.insert(0, os.path.join(_V, _p))
import vlib, domhist, domcommon
import domall_extra as X

# name, translation unit, relational?, k (dimension factor for the chain bound), operations never sent
DOMAINS = [
    dict(name="zones", tu="domall1", rel=True),
    dict(name="zones-safe", tu="domall1", rel=True),
    dict(name="sparse", tu="domall1", rel=True),
    dict(name="pack", tu="domall1", rel=True),
    dict(name="tvpi", tu="domall1", rel=True, k=3),
    dict(name="vpart", tu="domall1", rel=True),
    dict(name="gen-zones", tu="domall1", rel=True, wrapper_of="zones"),
    dict(name="ref-zones", tu="domall1", rel=True, wrapper_of="zones"),
    dict(name="oct", tu="domall2", rel=True),
    dict(name="look-oct", tu="domall2", rel=True, asc_widen=True),
    dict(name="term-itv", tu="domall2", rel=True),
    dict(name="term-zones", tu="domall2", rel=True),
    dict(name="term-dis", tu="domall2", rel=True),
    dict(name="uf", tu="domall2", rel=True),
    dict(name="num", tu="domall2", rel=True),
    dict(name="disitv", tu="domall3", rel=False),
    dict(name="cong", tu="domall3", rel=False),
    dict(name="ric", tu="domall3", rel=False),
    dict(name="sign", tu="domall3", rel=False),
    dict(name="const", tu="domall3", rel=False),
    dict(name="signconst", tu="domall3", rel=False),
    dict(name="prod-ic", tu="domall3", rel=False),
    dict(name="bool-itv", tu="domall3", rel=False),
    dict(name="bool-sparse", tu="domall3", rel=True),
    dict(name="pow-itv", tu="domall3", rel=False),
    dict(name="pow-zones", tu="domall3", rel=True),
]
EXCLUDED = {
    "wrapped_interval_domain": "machine-integer semantics (wrap-around at the bit width): not comparable with the mathematical-integer oracle; covered by C13",
    "boxes_domain": "needs the LDD library (not built in this tree)",
    "apron_domain / elina_domain / pplite": "external libraries not built in this tree",
    "array_* / region_domain": "not numerical-only domains: searched by C14/C15",
}
CHECKS = {"C03": ("at", "entails", "csts", "bot"), "C04": ("leq", "at", "bot", "csts"),
          "C05": ("at", "csts", "bot", "leq"), "C16": ("at", "entails", "csts", "bot", "leq")}
MAX_SHRINK_PER_BUCKET = 2
MAX_BUCKETS_SHRUNK = 12


def sizes(tier, prop):
    if tier == "quick":
        return {"C03": 110, "C04": 110, "C05": 60, "C16": 70}[prop]
    return {"C03": 6000, "C04": 5000, "C05": 2500, "C16": 3000}[prop]


def norm_msg(out_lines):
    """the CRAB_ERROR / assertion text of an aborted run, without process-specific parts"""
    m = [x for x in out_lines if x and not x.startswith("R ")]
    t = " ".join(m) if m else "no message (crash)"
    a = re.search(r"(\w+\.hpp:\d+): .*Assertion [`'](.*?)' failed", t)
    if a:
        return "assertion `%s' failed at %s" % (a.group(2)[:160], a.group(1))
    t = t[-400:]
    t = re.sub(r"^.*?h-domall\d-\w+: ", "", t)
    t = re.sub(r"/\S*/include/crab/", "crab/", t)
    return t.strip()[:300]


def run_cases(exe, mode, lines, path, timeout=900):
    """run the harness on the cases; CRAB_ERROR / assert / crash end the process: the case
    gets 'ABORT <message>' and the run restarts after it"""
    with open(path, "w") as f:
        f.write("\n".join(lines) + "\n")
    res = {}
    start = 0
    t0 = time.time()
    n = len(lines)
    while start < n and time.time() - t0 < timeout:
        rc, out = vlib.sh([exe, "--mode=" + mode, path, str(start)], timeout=timeout)
        last = start - 1
        ol = out.split("\n")
        for l in ol:
            if l.startswith("R "):
                sp = l.split(" ", 2)
                try:
                    i = int(sp[1])
                except ValueError:
                    continue
                res[i] = sp[2] if len(sp) > 2 else ""
                last = max(last, i)
        if last + 1 >= n:
            break
        res[last + 1] = "ABORT " + ("timeout" if rc == 124 else norm_msg(ol))
        start = last + 2
    return [res.get(i, "MISSING") for i in range(n)]


def abort_oracle(line, ans):
    if ans.startswith("ABORT"):
        return "step 0 (abort) of: %s: the domain aborted on an input inside the searched fragment: %s" % (line, abort_class(ans))
    return None


def abort_class(ans):
    t = ans[6:]
    t = re.sub(r"\bv\d+\b", "v_", t)
    return t[:200]


def shrink(exe, mode, line, oracle, kind, scratch, budget=40):
    """greedy delta debugging on the operation list: drop chunks, then single operations,
    as long as the real code still produces an answer the oracle rejects in the same
    class.  `forget` immediately before `rename` is kept (precondition of rename)."""
    ops = line.split(" ; ")
    head, body = ops[0], ops[1:]
    best_w = None

    def cands(body, size):
        out = []
        i = 0
        while i < len(body):
            j = min(len(body), i + size)
            if not (j < len(body) and body[j].startswith("rename") and body[j - 1].startswith("forget")):
                out.append(body[:i] + body[j:])
            i += size
        return out

    size = max(1, len(body) // 2)
    rounds = 0
    while rounds < budget:
        rounds += 1
        cs = [c for c in cands(body, size) if c]
        if not cs:
            break
        # the oracle samples its stores from a seed derived from the text: try each
        # candidate also with one and two trailing no-op queries
        cs = [c + extra for c in cs for extra in ([], ["q_at 0"], ["q_at 0", "q_at 0"])]
        lines = [head + " ; " + " ; ".join(c) for c in cs]
        answers = run_cases(exe, mode, lines, scratch, timeout=120)
        hit = None
        for c, l, a in zip(cs, lines, answers):
            try:
                w = oracle(l, a)
            except Exception:
                w = None
            if w and kind_of(w) == kind:
                hit = (c, w)
                break
        if hit:
            body, best_w = hit
            while len(body) > 1 and body[-1] == "q_at 0" and body[-2] == "q_at 0" and len(body) > 2 and body[-3] == "q_at 0":
                body = body[:-1]
            size = max(1, min(size, len(body) // 2))
        elif size > 1:
            size //= 2
        else:
            break
    return head + " ; " + " ; ".join(body), best_w


def kind_of(w):
    m = re.search(r"the domain aborted on an input inside the searched fragment: (.*)$", w)
    if m:
        return "abort:" + m.group(1)
    return X.kind_of(w)


def match_known(known, prop, stream, line, w):
    for k in known:
        if k.get("property") != prop:
            continue
        s = k.get("stream", "")
        if not (s == stream or s == "search-*" or (s.endswith("*") and stream.startswith(s[:-1]))):
            continue
        if not re.search(k.get("line_regex", ""), line):
            continue
        if k.get("witness_regex") and not re.search(k["witness_regex"], w):
            continue
        return k
    return None


def examine(rep, prop, dom, exe, stream, lines, answers, oracle, st, known, shrink_ok=True, report_aborts=True):
    """oracle on every case; bucket the hits by (class of message, operation of the failing
    step); shrink a few per bucket; report"""
    d = os.path.join(vlib.VERIF, "out", prop)
    buckets = {}
    for i, (l, a) in enumerate(zip(lines, answers)):
        if a.startswith("ABORT") or a == "MISSING":
            st["aborts"] += 1
            c = abort_class(a)
            st.setdefault("abort_classes", {})
            st["abort_classes"][c] = st["abort_classes"].get(c, 0) + 1
            if report_aborts:
                buckets.setdefault(("abort:" + c, "abort"), []).append((l, a, abort_oracle(l, a)))
            continue
        try:
            w = oracle(l, a)
        except Exception as e:
            w = None
            st["oracle_errors"] = st.get("oracle_errors", 0) + 1
            if "oracle_error_sample" not in st:
                st["oracle_error_sample"] = "%r on %s -> %s" % (e, l, a[:200])
        if w:
            st["oracle_violations"] += 1
            buckets.setdefault((kind_of(w), X.step_of(w)), []).append((l, a, w))
    nshrunk = 0
    for (kind, step), hits in sorted(buckets.items()):
        reported = set()
        for (l, a, w) in hits[:MAX_SHRINK_PER_BUCKET]:
            l2, w2 = l, w
            if shrink_ok and kind != "nonstab" and nshrunk < MAX_BUCKETS_SHRUNK * MAX_SHRINK_PER_BUCKET:
                nshrunk += 1
                l2, w2 = shrink(exe, dom["name"], l, (abort_oracle if kind.startswith("abort:") else oracle), kind, os.path.join(d, stream + ".shrink"))
                w2 = w2 or w
            if l2 in reported:
                continue
            reported.add(l2)
            kn = match_known(known, prop, stream, l2, w2)
            if kn:
                rep.known_finding("%s [%s, %d hit(s) of this class in the stream] input: %s" % (kn["what"], stream, len(hits), l2))
                st["known"] = st.get("known", 0) + 1
            else:
                tag = "%s-%s-%s-%d" % (stream, kind, re.sub(r"\W+", "_", step), len(reported))
                text = ("FAILING INPUT (property oracle on the answer of the real %s domain, no model involved): %s\n"
                        "domain=%s stream=%s class=%s hits-of-this-class=%d\nshrunk history: %s\noriginal history: %s\n"
                        "replay: build/impl-*/h-%s-* --mode=%s <file with the history>\n"
                        % (dom["name"], w2, dom["name"], stream, kind, len(hits), l2, l, dom["tu"], dom["name"]))
                rep.violation(tag, text, True)
    return buckets


def search(rep, tier, seed, prop, only=None, n=None, shrink_ok=True):
    t0 = time.time()
    doms = [d for d in DOMAINS if only is None or d["name"] in only]
    tus = sorted(set(d["tu"] for d in doms))
    built = vlib.build_harnesses(tus)
    known = [k for k in vlib.load_known().get("findings", []) if str(k.get("stream", "")).startswith("search-")]
    n = n or sizes(tier, prop)
    outd = os.path.join(vlib.VERIF, "out", prop)
    os.makedirs(outd, exist_ok=True)
    rep.cov.setdefault("search", {})["excluded_domains"] = EXCLUDED
    rep.cov["search"]["domains"] = [d["name"] for d in doms]
    checks = CHECKS[prop]
    base_answers = {}
    for dom in doms:
        name = dom["name"]
        stream = "search-" + name
        st = {"cases": 0, "oracle_violations": 0, "aborts": 0}
        rep.cov["streams"][stream] = st
        exe, err = built[dom["tu"]]
        if err:
            rep.violation(stream + "-build", "witness search %s: %s" % (stream, err), False)
            continue
        big = False
        hopts = dict(drop=dom.get("drop", ()), asc_widen=dom.get("asc_widen", False), rel=dom["rel"])
        lines = X.histories(seed + 1000 + (zlib_id(prop)), prop, n, big=big, **hopts)
        if tier != "quick" and not dom["rel"]:
            lines += X.histories(seed + 2000, prop, n // 4, big=True, **hopts)      # non-relational: arbitrary-precision bounds
        orc = lambda l, a: X.oracle_ext(l, a, None, checks)
        answers = run_cases(exe, name, lines, os.path.join(outd, stream + ".cases"))
        st["cases"] += len(lines)
        examine(rep, prop, dom, exe, stream, lines, answers, orc, st, known, shrink_ok)
        if prop == "C16":
            base_answers[name] = (lines, answers)
            # (iii) normalize()/minimize()/queries injected: every sound answer stays sound, and is
            # compared with the un-injected run
            rng = random.Random(seed + 16)
            inj = [X.with_normalize(l, rng) for l in lines]
            ans2 = run_cases(exe, name, [x[0] for x in inj], os.path.join(outd, stream + "-inj.cases"))
            st["cases"] += len(inj)
            examine(rep, prop, dom, exe, stream, [x[0] for x in inj], ans2, orc, st, known, shrink_ok)
            diff = 0
            for (l, a), (l2, keep), a2 in zip(zip(lines, answers), inj, ans2):
                if a.startswith("ABORT") or a2.startswith("ABORT") or "MISSING" in (a, a2):
                    continue
                p2 = a2.split(" ; ")
                if [p2[i] for i in keep if i < len(p2)] != a.split(" ; "):
                    diff += 1
                    st.setdefault("normalize_changes_answers_sample", l2)
            st["normalize_changes_answers"] = diff
            w = dom.get("wrapper_of")
            if w and w in base_answers:
                bl, ba = base_answers[w]
                nd = 0
                for l, a, b in zip(lines, answers, ba):
                    if a != b and not a.startswith("ABORT") and not b.startswith("ABORT"):
                        nd += 1
                        st.setdefault("wrapper_differs_sample", l)
                st["wrapper_differs_from_bare"] = nd
        if prop == "C05":
            # interval-shaped chains of the modelled domain, with its bound
            ch = domcommon.widen_chains(seed + 5, max(10, n // 3))
            if dom.get("asc_widen"):
                ch = [X.ascending_widen(l) for l in ch]
            ans = run_cases(exe, name, ch, os.path.join(outd, stream + "-chains.cases"))
            st["cases"] += len(ch)
            k = dom.get("k", 1)
            examine(rep, prop, dom, exe, stream, ch, ans, lambda l, a: chain_oracle_k(l, a, k), st, known, shrink_ok)
            # relational chains, long enough to exceed the bound if the widening does not stabilise
            steps = 130 if tier == "quick" else 220
            rc = X.rel_chains(seed + 6, max(6, n // 6), steps, maxvars=(2 if k > 1 else 3))
            if dom.get("asc_widen"):
                rc = [X.ascending_widen(l) for l in rc]
            ans = run_cases(exe, name, rc, os.path.join(outd, stream + "-relchains.cases"))
            st["cases"] += len(rc)
            st["chain_steps"] = steps
            examine(rep, prop, dom, exe, stream, rc, ans, lambda l, a: X.rel_chain_oracle(l, a, None, k), st, known, shrink_ok)
        rep.cov["evaluations"] += st["cases"]
    rep.cov["search"]["wall_s"] = round(time.time() - t0, 1)


def chain_oracle_k(line, ans, k):
    if ans.startswith("ABORT") or ans == "MISSING":
        return None
    w = domcommon.chain_oracle(line, ans)
    if w and "second argument of a widening" in w:
        # completeness of the inclusion test, not soundness of the widening (the result is
        # checked on the stores): not required from the un-modelled domains
        return None
    if w and "non-stationary" in w and k > 1:
        # fixed-tvpi keeps ghost dimensions x/2, x/3: re-evaluate with its own bound
        return X.rel_chain_oracle_interval(line, ans, k) if hasattr(X, "rel_chain_oracle_interval") else None
    if w and not w.startswith("step"):
        w = "step 0 (widen) of: " + w
    return w


def zlib_id(s):
    import zlib
    return zlib.crc32(s.encode()) % 1000


class _Rep:
    """stand-alone report for the command line"""
    def __init__(self, prop):
        self.prop = prop
        self.cov = {"streams": {}, "evaluations": 0}
        self.v = []; self.k = []

    def violation(self, tag, text, w):
        self.v.append((tag, text))

    def known_finding(self, what):
        self.k.append(what)


if __name__ == "__main__":
    import argparse
    ap = argparse.ArgumentParser()
    ap.add_argument("prop")
    ap.add_argument("--dom", default=None)
    ap.add_argument("--n", type=int, default=None)
    ap.add_argument("--seed", type=int, default=20260925)
    ap.add_argument("--tier", default="quick")
    ap.add_argument("--no-shrink", action="store_true")
    ap.add_argument("--replay", help="a history (text) or a file holding one: run it on --dom, print every step with its answer")
    ap.add_argument("--shrink", action="store_true", help="with --replay: shrink first")
    a = ap.parse_args()
    if os.environ.get("DOMALL_PRIVATE_BUILD", "1") == "1":
        # exploration from the command line: a private build cache, so that concurrent checks
        # (which prune build/impl-*) do not remove the tree being compiled
        vlib.BUILD = os.path.join(vlib.VERIF, "build", "domall-scratch")
    if a.replay:
        line = open(a.replay).read().strip().split("\n")[0] if os.path.exists(a.replay) else a.replay
        for dn in a.dom.split(","):
            dom = [d for d in DOMAINS if d["name"] == dn][0]
            exe, err = vlib.build_harness(dom["tu"])
            sc = os.path.join(vlib.VERIF, "out", "replay-%s.cases" % dn)
            orc = lambda l, x: (X.rel_chain_oracle(l, x, None, dom.get("k", 1)) if a.prop == "C05" and "q_leq 0 2" in l else X.oracle_ext(l, x, None, CHECKS[a.prop]))
            ans = run_cases(exe, dn, [line], sc)[0]
            w = orc(line, ans) or abort_oracle(line, ans)
            if a.shrink and w:
                line, w = shrink(exe, dn, line, (abort_oracle if ans.startswith("ABORT") else orc), kind_of(w), sc + ".s")
                ans = run_cases(exe, dn, [line], sc)[0]
            print("== %s" % dn)
            print(line)
            parts = ans.split(" ; ")
            for i, o in enumerate(line.split(" ; ")[1:]):
                print("%3d  %-60s -> %s" % (i + 1, o, parts[i] if i < len(parts) else "?"))
            if ans.startswith("ABORT"):
                print(ans)
                ol = line.split(" ; ")
                pre = [" ; ".join(ol[:j]) for j in range(2, len(ol) + 1)]
                pa = run_cases(exe, dn, pre, sc)
                for j, x in enumerate(pa):
                    if x.startswith("ABORT"):
                        print("first aborting prefix ends at step %d (%s); answers before: %s" % (j + 1, ol[j + 1], pa[j - 1] if j else ""))
                        break
            print("oracle:", w)
        sys.exit(0)
    rep = _Rep(a.prop)
    t = time.time()
    search(rep, a.tier, a.seed, a.prop, only=a.dom.split(",") if a.dom else None, n=a.n, shrink_ok=not a.no_shrink)
    for name, st in rep.cov["streams"].items():
        print(name, json.dumps(st)[:600])
    for k in rep.k:
        print("KNOWN:", k[:400])
    for tag, text in rep.v:
        print("VIOLATION", tag)
        print("   " + "\n   ".join(text.split("\n")[:3]))
    print("wall %.1f s, %d violations, %d known" % (time.time() - t, len(rep.v), len(rep.k)))
