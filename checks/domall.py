"""Witness search over the native domains that have no Coq model (placeholder until the
all-domains harness is built)."""
def search(rep, tier, seed, prop):
    return
