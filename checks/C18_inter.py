"""C18, second half, inter-procedural: crab::analyzer::inter_assertion_crawler<call_graph> on generated multi-function
programs with call sites, judged by an independent concrete oracle (gen/intercrawl.py).  Oracle only, no Coq model.

Called from checks/C18.py:   C18_inter.streams(rep, tier, seed)
Stand-alone:                 python3 checks/C18_inter.py --replay <replay file | program line>

What the crawler lists at a block of a function F (rule read off assertion_crawler.hpp, visit(callsite_t&)): F's own
assertions reachable from the block and, for every call site reachable from the block, all the facts that hold at the
entry of the callee (the callee's assertions and, transitively, those of its callees) with the callee's formal inputs
renamed to the actual parameters; a call result in a fact of the caller is replaced by the variables the callee's summary
relates the formal output to, renamed to the actuals.

RECURSION: not generated.  inter_assertion_crawler iterates over a recursive SCC, but every iteration creates a fresh
intra-procedural crawler that shares the assertion table of the first one, and transfer_function::process_assertion
returns early for an assertion that is already in the table: from the second iteration on the own assertions of the
SCC's functions are no longer generated (only the copies that travel through the summaries remain).  Example
   inter 2 3 cd=0 | F 0 1 0 I 0 O 0 | F 1 3 2 I 1 0 O 1 1 | B 0 0 call 1 1 1 1 0 ; assert C le E 1 -1 1 1 1 | B 1 0 arith sub 2 0 k 1 | B 1 1 call 1 1 1 1 2 | B 1 2 assert C le E 1 1 0 0 2 ; assign 1 E 1 1 0 0 | E 1 0 1 0 2 1 2
answers  F1 ... b1:[2:{2}] b2:[]   (assertion 2 is the first statement of b2 and is not listed there); the same
program with `havoc 1` instead of the recursive call answers b1:[2:{0}] b2:[2:{0}].  DAG call graphs only.
"""
import os, re, sys, time

if __name__ == "__main__":
    _V = os.path.dirname(os.path.dirname(os.path.abspath(__file__)))
    sys.path[:0] = [os.path.join(_V, "bin"), os.path.join(_V, "gen"), os.path.join(_V, "checks")]
import vlib, intercrawl

STREAM = "crawler-inter"
NONTRIVIAL_RULE = ("some assertion of a function located after one of its call sites (its condition uses a result of the call) has, at the "
                   "entry of the call's block, a non-empty reported set that contains an actual parameter of that call (a variable flowing "
                   "through the call); distinct by input line")


def _run(hexe, lines, cf, timeout=600):
    with open(cf, "w") as f:
        f.write("\n".join(lines) + "\n")
    return vlib.run_harness_resilient(hexe, [], cf, len(lines), timeout)


def _known():
    return [k for k in vlib.load_known().get("findings", []) if k.get("property") == "C18" and k.get("stream") == STREAM]


def _text(cls, w, i, line, a):
    return ("FAILING INPUT (inter-procedural assertion crawler, %s): %s\nstream=%s case=%d\ninput: %s\nimplementation: %s\n"
            "replay: python3 checks/C18_inter.py --replay <this file>\n" % (cls, w, STREAM, i, line, a))


def streams(rep, tier, seed):
    t0 = time.time()
    hexe, err = vlib.build_harness("intercrawl")
    if err:
        rep.violation(STREAM + "-build", "oracle stream %s: %s" % (STREAM, err), False)
        return
    replay_line = None
    if getattr(vlib, "REPLAY", None) is not None:
        if vlib.REPLAY[0] != STREAM:
            return
        replay_line = vlib.REPLAY[1]
    lines = [replay_line] if replay_line else intercrawl.gen(seed, tier)
    d = os.path.join(vlib.VERIF, "out", rep.prop)
    os.makedirs(d, exist_ok=True)
    impl = _run(hexe, lines, os.path.join(d, STREAM + (".replay" if replay_line else "") + ".cases"))
    known = _known()
    hist, per_class, nknown = {}, {}, {}
    nt = set()
    aborts = hits = 0
    for i, l in enumerate(lines):
        a = impl.get(i, "MISSING")
        k = intercrawl.key(l)
        hist[k] = hist.get(k, 0) + 1
        if a in ("ABORT", "TIMEOUT", "MISSING"):
            aborts += 1
        try:
            if intercrawl.nontrivial(l, a):
                nt.add(l)
            w = intercrawl.oracle(l, a)
        except Exception as e:       # a crash of the oracle must be visible, not silent
            w = ("oracle-error", "the oracle could not judge the answer: %r" % (e,))
        if not w:
            continue
        cls, txt = w
        kn = [kk for kk in known if re.search(kk["line_regex"], l) and re.search(kk.get("witness_regex", ""), txt)]
        if kn:
            nknown[kn[0]["what"]] = nknown.get(kn[0]["what"], 0) + 1
            if nknown[kn[0]["what"]] == 1:
                rep.known_finding("%s [first of this class: %s | input: %s]" % (kn[0]["what"], txt[:900], l))
            continue
        hits += 1
        tag = "%s-%s" % (cls, k.split("/")[-1])
        per_class[tag] = per_class.get(tag, 0) + 1
        if per_class[tag] <= 1 and sum(1 for v in per_class.values() if v) <= 8:
            rep.violation("%s-%s-%d" % (STREAM, re.sub(r"\W+", "_", tag), i), _text(cls, txt, i, l, a), cls != "oracle-error")
    rep.cov["streams"][STREAM] = {
        "cases": len(lines), "oracle_violations": hits, "violations_per_class": per_class, "aborts": aborts,
        "distinct_nontrivial": len(nt), "nontrivial_rule": NONTRIVIAL_RULE,
        "histogram": dict(sorted(hist.items(), key=lambda kv: (-kv[1], kv[0]))[:60]),
        "known_finding_hits": sum(nknown.values()), "wall_s": round(time.time() - t0, 1),
        "call_graphs": "DAGs only (recursive SCCs lose the functions' own assertions: see the module docstring)",
    }
    rep.cov["evaluations"] += len(lines)
    rep.cov["distinct_nontrivial"] += len(nt)
    rep.cov["rule"] += ("; crawler-inter: scripted call chains of depth 1-3 (1-2 inputs / outputs, permuted arguments and results, outputs that "
                        "depend on some / no input, second call site, assertions inside callees) and random DAG programs of 2-4 functions, each "
                        "under four naming policies (disjoint names per function, the same low names in every function, random shared names, "
                        "call-site names aligned with the formals).  Non-trivial: " + NONTRIVIAL_RULE)
    rep.assumptions.append("crawler-inter is oracle only: the facts of inter_assertion_crawler are judged on sampled walks (8 per block, perturbation "
                           "replay of every variable that is not listed); recursive call graphs are not generated")


def replay(path):
    """re-run the program recorded in a replay file (line 'input: ...') or given literally: print the answer and the oracle's verdict"""
    if os.path.exists(path):
        m = re.search(r"(?m)^input: (.*)$", open(path).read())
        if not m:
            print("no recorded input in", path)
            return 2
        line = m.group(1).strip()
    else:
        line = path.strip()
    hexe, err = vlib.build_harness("intercrawl")
    if err:
        print(err)
        return 2
    d = os.path.join(vlib.VERIF, "out", "C18")
    os.makedirs(d, exist_ok=True)
    a = _run(hexe, [line], os.path.join(d, STREAM + ".replay.cases"), 120).get(0, "MISSING")
    print("input:          ", line)
    print("implementation: ", a)
    w = intercrawl.oracle(line, a, walks=64)
    print("oracle:         ", ("%s: %s" % w) if w else "property holds on the implementation's answer (sampled walks)")
    return 1 if w else 0


def explore_recursive(seed, n):
    hexe, err = vlib.build_harness("intercrawl")
    if err:
        print(err)
        return 2
    lines = [l for l in intercrawl.gen_recursive(seed, n) if intercrawl.is_recursive(intercrawl.parse(l))]
    d = os.path.join(vlib.VERIF, "out", "C18")
    os.makedirs(d, exist_ok=True)
    impl = _run(hexe, lines, os.path.join(d, STREAM + ".recursive.cases"))
    per = {}
    for i, l in enumerate(lines):
        a = impl.get(i, "MISSING")
        w = ("abort", a) if a in ("ABORT", "TIMEOUT") else intercrawl.oracle(l, a)
        if w:
            per[w[0]] = per.get(w[0], 0) + 1
            if per[w[0]] <= 2:
                print("%s: %s\ninput: %s\nimplementation: %s\n" % (w[0], w[1][:700], l, a))
    print("recursive programs: %d, oracle hits per class: %s" % (len(lines), per))
    return 1 if per else 0


if __name__ == "__main__":
    import argparse
    ap = argparse.ArgumentParser()
    ap.add_argument("--replay")
    ap.add_argument("--recursive", type=int, help="exploration: run <n> programs with recursive call graphs (not part of the check)")
    ap.add_argument("--seed", type=int, default=0)
    a = ap.parse_args()
    if a.recursive:
        sys.exit(explore_recursive(a.seed, a.recursive))
    sys.exit(replay(a.replay))
