"""C17 — CFG transformations (simplify, dead-code elimination, lowering of proven assertions) preserve behaviour."""
import vlib, transforms

TRUSTED = [
    "Coq 8.16.1 kernel (coqc); no native_compute; vm_compute only in Examples",
    "extraction: ExtrOcamlBasic only, no Extract Constant; OCaml driver ocaml/transforms_drv.ml",
    "harness/transforms.cpp + harness/cfgtext.hpp: real crab z_cfg_t built from the text; dead_code_elimination::run, cfg::simplify, lower_safe_assertions::run; the transformed CFG is printed statement by statement with the successor / predecessor vectors in crab's order",
    "concrete semantics = coq/Ana/CfgSem.v; the python interpreter of gen/transforms.py re-implements it independently for the differential oracle",
]


def run(rep, tier, seed):
    rep.cov["trusted_base"] = TRUSTED
    rep.cov["rule"] = ("corpus (the repaired defects, chains into the exit, entry = loop head) + seeded random CFGs with 1-12 blocks: chains, "
                       "diamonds, loops, self loops, 2-cycles, blocks unreachable from the entry or not reaching the exit, `unreachable` "
                       "statements, function outputs; queries dce / simp / lower (random subset of the assertions) / pipe = lower;dce;simplify. "
                       "Non-trivial: the transformation changed the CFG (statement, assertion or block count); distinct by input line")
    rep.assumptions = [
        "models = hand-written Coq mirrors of dce.hpp, cfg::simplify (merge_blocks_rec, remove, remove_unreachable_blocks, remove_useless_blocks) and lower_safe_assertions.hpp, tied to the sources by differential testing only",
        "DCE theorem is conditional on the liveness model returning a validated solution (C18) and, for the converse direction, on the property's proviso (no removed statement can fail)",
        "cfg::simplify: well-formedness and behaviour preservation (observations of the exit-reaching executions, both directions) are proved for the whole model (merge_blocks_rec with fuel, both removal passes) on well-formed CFGs; the model answers ABORT if its DFS fuel (2*blocks+2) runs out: never observed",
        "lowering is exact on exit-reaching executions (a failing assertion ends the execution); the safety of the listed assertions only matters for failing executions, which the property does not cover",
        "observations do not include goto events for simplify (blocks are merged); for DCE the full trace including the branches is preserved",
        "cfg::remove is modelled on CFGs with symmetric edge vectors (the only ones basic_block::operator>> / -= can build)",
    ]
    vlib.prove(rep)
    lines = transforms.gen(seed, tier, "C17")
    vlib.run_stream(rep, "transforms", "transforms", "transforms", lines, oracle=transforms.oracle,
                    nontrivial=transforms.nontrivial, key=transforms.key)


def replay(path):
    """bin/check C17 --replay <file>: re-run the recorded case on both sides, print both answers and the oracle's verdict."""
    import os, re
    txt = open(path).read()
    m = re.search(r"^input: (.*)$", txt, re.M)
    if not m:
        print("no recorded input in", path)
        return 2
    line = m.group(1).strip()
    hexe, err = vlib.build_harness("transforms")
    dexe, err2 = vlib.build_driver("transforms")
    if err or err2:
        print(err or err2)
        return 2
    d = os.path.join(vlib.VERIF, "out", "C17")
    os.makedirs(d, exist_ok=True)
    cf = os.path.join(d, "replay.case")
    open(cf, "w").write(line + "\n")
    impl = vlib.run_harness_resilient(hexe, (), cf, 1, 120).get(0, "MISSING")
    rc, out = vlib.sh([dexe, cf], timeout=120)
    model = out.strip().split(" ", 2)[2] if out.startswith("R 0 ") else out.strip()
    print("input:          ", line)
    print("implementation: ", impl)
    print("model:          ", model)
    print("oracle:         ", transforms.oracle(line, impl, None) or "property holds on the implementation's answer (sampled executions)")
    return 0 if impl == model else 1
