"""C17 — CFG transformations (simplify, dead-code elimination, lowering of proven assertions) preserve behaviour."""
import vlib, transforms

TRUSTED = [
    "Coq 8.16.1 kernel (coqc); no native_compute; vm_compute only in Examples",
    "extraction: ExtrOcamlBasic only, no Extract Constant; OCaml driver ocaml/transforms_drv.ml",
    "harness/transforms.cpp + harness/cfgtext.hpp: real crab z_cfg_t built from the text; dead_code_elimination::run, cfg::simplify, lower_safe_assertions::run; the transformed CFG is printed statement by statement with the successor / predecessor vectors in crab's order",
    "concrete semantics = coq/Ana/CfgSem.v; the python interpreter of gen/transforms.py re-implements it independently for the differential oracle",
]


def run(rep, tier, seed):
    rep.cov["trusted_base"] = TRUSTED
    rep.cov["rule"] = ("corpus (the repaired defects, chains into the exit, entry = loop head) + seeded random CFGs with 1-12 blocks: chains, "
                       "diamonds, loops, self loops, 2-cycles, blocks unreachable from the entry or not reaching the exit, `unreachable` "
                       "statements, function outputs; queries dce / simp / lower (random subset of the assertions) / pipe = lower;dce;simplify. "
                       "Non-trivial: the transformation changed the CFG (statement, assertion or block count); distinct by input line. "
                       "Sub-stream transforms-bool (harness + oracle only): the same CFG shapes with blocks that mix numerical and boolean "
                       "statements, boolean assertions that hold by construction (guarded groups, a guard boolean assumed in the entry block) "
                       "and boolean assertions that may fail, a random subset lowered, boolean / integer function outputs")
    rep.assumptions = [
        "models = hand-written Coq mirrors of dce.hpp, cfg::simplify (merge_blocks_rec, remove, remove_unreachable_blocks, remove_useless_blocks) and lower_safe_assertions.hpp, tied to the sources by differential testing only",
        "DCE theorem is conditional on the liveness model returning a validated solution (C18) and, for the converse direction, on the property's proviso (no removed statement can fail)",
        "cfg::simplify: well-formedness and behaviour preservation (observations of the exit-reaching executions, both directions) are proved for the whole model (merge_blocks_rec with fuel, both removal passes) on well-formed CFGs; the model answers ABORT if its DFS fuel (2*blocks+2) runs out: never observed",
        "lowering is exact on exit-reaching executions (a failing assertion ends the execution); the safety of the listed assertions only matters for failing executions, which the property does not cover",
        "observations do not include goto events for simplify (blocks are merged); for DCE the full trace including the branches is preserved",
        "cfg::remove is modelled on CFGs with symmetric edge vectors (the only ones basic_block::operator>> / -= can build)",
    ]
    vlib.prove(rep)
    lines = transforms.gen(seed, tier, "C17")
    vlib.run_stream(rep, "transforms", "transforms", "transforms", lines, oracle=transforms.oracle,
                    nontrivial=transforms.nontrivial, key=transforms.key)
    bool_stream(rep, tier, seed)
    bool_stream(rep, tier, seed, name="transforms-array")


def bool_stream(rep, tier, seed, name="transforms-bool"):
    """Sub-stream transforms-bool (oracle only: the Coq model has no boolean statements).  Programs that mix numerical
    and boolean statements (bool_assign_cst / bool_assign_var / bool_binary_op / bool_select / bool_assume /
    bool_assert, havoc and zext of booleans) go through dce / simplify / lower_safe_assertions / pipe in the harness;
    the printed CFG is judged by the leader / follower oracle of gen/transforms.py (booleans = extra 0/1 entries of
    the store)."""
    import os, re, random
    arr = name == "transforms-array"
    lines = transforms.gen_arr(seed, tier) if arr else transforms.gen_bool(seed, tier)
    st = {"cases": len(lines), "oracle_violations": 0, "aborts": 0, "unanswered": 0, "distinct_nontrivial": 0}
    rep.cov["streams"][name] = st
    if arr:
        rep.assumptions.append(
            "transforms-array: no Coq model (array statements are outside coq/Ana); array_init / array_store (one cell, strong and "
            "weak) / array_store_range / array_load / array_assign with constant element size through dce / simplify / "
            "lower_safe_assertions / pipe and cfg::clone (q=clone), judged by the sampled leader/follower oracle only; arrays = "
            "maps from indices to integers, a cell that array_init leaves undefined reads as an arbitrary value")
    else:
      rep.assumptions.append(
        "transforms-bool: no Coq model (boolean statements are outside coq/Ana); the real transformations are judged by the "
        "sampled leader/follower oracle only (40 executions per program in each direction); reference statements / ref_assert "
        "and boolean assignments of reference constraints are not generated")
    hexe, err = vlib.build_harness("transforms")
    if err:
        rep.violation(name + "-build", "stream %s: %s" % (name, err), False)
        return
    d = os.path.join(vlib.VERIF, "out", rep.prop)
    os.makedirs(d, exist_ok=True)
    cf = os.path.join(d, name + ".cases")
    with open(cf, "w") as f:
        f.write("\n".join(lines) + "\n")
    impl = vlib.run_harness_resilient(hexe, (), cf, len(lines), 900)
    known = [k for k in vlib.load_known().get("findings", [])
             if k.get("property") == rep.prop and k.get("stream", name) == name]
    rng = random.Random(seed * 7919 + 17)
    transforms.STATS = stats = {}
    reported, nontriv, hist = set(), set(), {}
    for i, line in enumerate(lines):
        a = impl.get(i, "MISSING")
        k = transforms.key(line)
        hist[k] = hist.get(k, 0) + 1
        wit, has_input = None, True
        if a == "ABORT":
            st["aborts"] += 1
        if a in ("MISSING", "TIMEOUT") or a.startswith("HARNESS-ERROR"):
            st["unanswered"] += 1
            wit, has_input = "the harness gave no answer (%s) on a well-formed program" % a, a == "TIMEOUT"
        else:
            try:
                wit = transforms.oracle(line, a, rng)
                if wit is None and a != "ABORT" and transforms.parse_cfg_answer(a, 0, []) is None:
                    wit, has_input = "the printed CFG cannot be parsed back", False
            except Exception as e:       # e.g. a statement the harness cannot print ("?")
                wit, has_input = "the printed CFG cannot be interpreted (%s: %s)" % (type(e).__name__, e), False
        if wit is None:
            if (transforms.nontrivial_arr if arr else transforms.nontrivial_bool)(line, a):
                nontriv.add(line)
            continue
        st["oracle_violations"] += 1
        kn = [kk for kk in known if re.search(kk["line_regex"], line) and re.search(kk.get("witness_regex", ""), wit)]
        if kn:
            rep.known_finding("%s (%s)" % (kn[0]["what"], line))
            continue
        tag = "%s-%s" % (name, k)
        if tag in reported:
            continue
        reported.add(tag)
        rep.violation(tag, ("FAILING INPUT (property oracle on the implementation's answer): " if has_input else "") + wit +
                      "\nstream=%s case=%d\ninput: %s\nimplementation: %s\nmodel: (none: oracle-only stream)\n"
                      % (name, i, line, a), has_input)
    transforms.STATS = None
    generic_simplify(rep, name, lines, impl, st)
    st["distinct_nontrivial"] = len(nontriv)
    st["histogram"] = hist
    st["sampled_executions"] = stats
    st["lowered_bool_asserts"] = sum(len(re.findall(r"\bbassert\b", l)) - len(re.findall(r"\bbassert\b", impl.get(i, "")))
                                     for i, l in enumerate(lines) if re.search(r"q=(lower|pipe)\b", l))
    rep.cov["evaluations"] += len(lines)
    rep.cov["distinct_nontrivial"] += len(nontriv)
    if lines:
        for i in sorted(rng.sample(range(len(lines)), min(2, len(lines)))):
            rep.cov["samples"].append({"stream": name, "input": lines[i][:600], "implementation": (impl.get(i) or "")[:600],
                                       "model": "(none: oracle-only stream)"})


def _canon_stmt(toks):
    """the text the harness prints for a statement: a range store whose bounds are the same expression is an
    array_store_stmt with lb = ub, printed as a one-cell (weak) store"""
    if toks and toks[0] == "astorer":
        def exp_end(p):            # E n (c v)*n k
            return p + 2 + 2 * int(toks[p + 1]) + 1
        p1 = 3; p2 = exp_end(p1); p3 = exp_end(p2)
        if toks[p1:p2] == toks[p2:p3]:
            return " ".join(["astore", toks[1], toks[2], "0"] + toks[p1:p2] + toks[p3:])
    return " ".join(toks)


def generic_simplify(rep, name, lines, impl, st):
    """Correspondence for the generic theorems (Props/Properties_C17_generic.v): cfg::simplify never inspects a statement,
    and Ana/SimplifyGen.v proves the model of simplify for every statement language, the model of Ana/Simplify.v being its
    instance (simplify_is_instance).  For every q=simp case of this stream each statement is replaced by a distinct opaque
    token (`assign 0 E 0 <n>`), the extracted model runs on the abstracted CFG, the tokens are replaced back, and the result
    must be the CFG the implementation printed for the real (boolean / array) program: same blocks, same statement
    sequences, same edge vectors."""
    import os, re
    idx = [i for i, l in enumerate(lines) if " q=simp" in l.split(" | ")[0] and impl.get(i, "").startswith("entry=")]
    if not idx:
        return
    dexe, err = vlib.build_driver("transforms")
    if err:
        rep.violation(name + "-generic-driver", err, False)
        return
    tables, abs_lines = [], []
    for i in idx:
        secs = lines[i].split(" | ")
        table, out = [], [" ".join(secs[0].split()[:2] + ["1"] + secs[0].split()[3:])]
        for sec in secs[1:]:
            t = sec.split()
            if not t or t[0] in ("F", "L"):
                continue
            if t[0] == "B":
                toks = []
                for stx in transforms.split_stmts(t[2:]):
                    toks.append("assign 0 E 0 %d" % (1000 + len(table)))
                    table.append(_canon_stmt(stx))
                out.append(("B %s %s" % (t[1], " ; ".join(toks))).strip())
            else:
                out.append(sec)
        tables.append(table); abs_lines.append(" | ".join(out))
    d = os.path.join(vlib.VERIF, "out", rep.prop)
    cf = os.path.join(d, name + "-generic.cases")
    open(cf, "w").write("\n".join(abs_lines) + "\n")
    rc, out = vlib.sh([dexe, cf], timeout=600)
    model = {}
    for l in out.split("\n"):
        if l.startswith("R "):
            sp = l.split(" ", 2); model[int(sp[1])] = sp[2] if len(sp) > 2 else ""
    bad = 0
    for j, i in enumerate(idx):
        m = model.get(j, "MISSING")
        m = re.sub(r"assign 0 E 0 (\d+)", lambda mm: tables[j][int(mm.group(1)) - 1000] if 0 <= int(mm.group(1)) - 1000 < len(tables[j]) else mm.group(0), m)
        if m != impl[i]:
            bad += 1
            if bad <= 2:
                w = None
                try:
                    w = transforms.oracle(lines[i], impl[i], None)
                except Exception:
                    pass
                rep.violation("%s-generic-simp-%d" % (name, i),
                              (("FAILING INPUT (property oracle on the implementation's answer): " + w + "\n") if w else
                               "correspondence broken: cfg::simplify on a program with boolean / array statements no longer agrees with the "
                               "generic Coq model (Props/Properties_C17_generic.v no longer applies to this code); the oracle found no "
                               "concrete counterexample on this input\n") +
                              "stream=%s case=%d\ninput: %s\nimplementation: %s\nmodel: %s\n" % (name, i, lines[i], impl[i], m), bool(w))
    st["generic_simplify_model"] = {"cases": len(idx), "mismatches": bad}


def replay(path):
    """bin/check C17 --replay <file>: re-run the recorded case on both sides, print both answers and the oracle's verdict."""
    import os, re
    txt = open(path).read()
    m = re.search(r"^input: (.*)$", txt, re.M)
    if not m:
        print("no recorded input in", path)
        return 2
    line = m.group(1).strip()
    hexe, err = vlib.build_harness("transforms")
    dexe, err2 = vlib.build_driver("transforms")
    if err or err2:
        print(err or err2)
        return 2
    d = os.path.join(vlib.VERIF, "out", "C17")
    os.makedirs(d, exist_ok=True)
    cf = os.path.join(d, "replay.case")
    open(cf, "w").write(line + "\n")
    impl = vlib.run_harness_resilient(hexe, (), cf, 1, 120).get(0, "MISSING")
    if re.search(transforms.BOOL_KINDS, line) or re.search(transforms.ARR_KINDS, line) or re.search(r"\| F [^|]*\bb\d", line):
        # sub-streams transforms-bool / transforms-array: the model does not know boolean / array statements
        w = transforms.oracle(line, impl, None)
        print("input:          ", line)
        print("implementation: ", impl)
        print("model:           (none: oracle-only stream)")
        print("oracle:         ", w or "property holds on the implementation's answer (sampled executions)")
        return 1 if w else 0
    rc, out = vlib.sh([dexe, cf], timeout=120)
    model = out.strip().split(" ", 2)[2] if out.startswith("R 0 ") else out.strip()
    print("input:          ", line)
    print("implementation: ", impl)
    print("model:          ", model)
    print("oracle:         ", transforms.oracle(line, impl, None) or "property holds on the implementation's answer (sampled executions)")
    return 0 if impl == model else 1
