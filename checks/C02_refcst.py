"""C02 for reference assertions, the negation the checker relies on: mirror model of the reference_constraint class
(coq/Ana/RefCst.v; theorems coq/Props/Properties_C02_refs.v: negate() is the exact negation, the rule of
check(assert_ref_t&) is sound for every domain with sound ref_assume / is_bottom) against the REAL factory functions,
negate() and the predicates (harness/refcst.cpp) + the evaluation oracle of gen/refcst.py.

Called from checks/C02.py:   C02_refcst.streams(rep, tier, seed)
"""
import vlib, refcst

STREAM = "refcst-negate"
RULE = ("refcst-negate: corpus (mk_true / mk_false, the six unary forms, the q = p + 4 boundary sweep of both operand orders for "
        "k in -8..8, the same variable on both sides) + every relation with offsets 0, +-1, +-2^31.., +-2^64.., 10^30 + seeded "
        "random constraints (offset 0 / small / around powers of two / up to 10^12), 1-3 successive negations; non-trivial = an "
        "ordering constraint or a non-zero offset (the negation has to swap operands, mirror the relation or flip the sign); "
        "distinct by form and relation")


def streams(rep, tier, seed):
    rep.cov["rule"] = rep.cov.get("rule", "") + " || " + RULE
    rep.assumptions = [a for a in rep.assumptions if a != "boolean and reference assertions are outside the modelled fragment"]
    rep.assumptions += [
        "reference assertions: the theorems C02_refs_* are about the mirror model of reference_constraint (fields, factory functions, "
        "negate(), predicates; tied to the sources by the stream refcst-negate on the real class) and of the three-way rule of "
        "check(assert_ref_t&), generic in the abstract domain: soundness of ref_assume / is_bottom of the region domains is a "
        "hypothesis (property C15; the verdicts on real region domains are the oracle streams fwd-refs-*-oracle)",
        "reference assertions: addresses are integers (any sign), null = 0; boolean assertions are outside the modelled fragment",
    ]
    rep.cov["trusted_base"].append("ocaml/refcst_drv.ml, harness/refcst.cpp (real reference_constraint), gen/refcst.py (evaluation oracle)")
    rc, out = vlib.coq_make(["Extract/ExtractRefCst.vo"])
    if rc != 0:
        rep.violation(STREAM + "-extract", "Extract/ExtractRefCst.v no longer compiles:\n" + out[-2000:], False)
        return
    lines = refcst.gen(seed, tier)
    vlib.run_stream(rep, STREAM, "refcst", "refcst", lines, oracle=refcst.oracle,
                    nontrivial=refcst.nontrivial, key=refcst.key)
