"""C06 — the fixpoint engine computes the least solution when nothing is extrapolated."""
import vlib, fixfs

def run(rep, tier, seed):
    rep.cov["trusted_base"] = [
        "Coq 8.16.1 kernel (coqc); no native_compute (vm_compute in one Example)",
        "extraction: ExtrOcamlBasic only; OCaml driver ocaml/fixfs_drv.ml builds the flow problem, the WTO (model of wto.hpp, C07) and prints the validated Kleene least fixpoint; it also checks that the engine model coincides with it",
        "harness/fixfs.cpp: a client subclass of interleaved_fwd_fixpoint_iterator with a 64-bit set-of-states value type (join as widening, meet as narrowing) and exact-image transformers, on real crab CFGs",
        "gen/fixfs.py: generator and an independent python least-fixpoint oracle",
    ]
    rep.cov["rule"] = ("random CFGs (1-12 blocks, nested/irreducible loops, self loop or 2-cycle on the entry, unreachable blocks) over 1-8 "
                       "states, random block relations, start block = CFG entry or a reachable block outside loops, random assumption maps, "
                       "delays 0-3, descending 0-3; non-trivial = a cycle exists and at least two blocks get a non-empty non-full set")
    rep.assumptions = ["the implementation is compared with the specification (= reachability, proved) on generated cases only",
                       "start blocks inside a loop other than the CFG entry are outside the property (and the generator)",
                       "the engine model's equality with the specification is checked per case, not proved"]
    vlib.prove(rep)
    lines = fixfs.gen(seed + 6, tier)
    vlib.run_stream(rep, "fixpoint-finite-sets", "fixfs", "fixfs", lines, oracle=fixfs.oracle,
                    nontrivial=fixfs.nontrivial, key=lambda l: "cfg")
